#!/bin/bash
# debug helper: run python with the harness environment
cd /verif
export PYTHONPATH="${VERIF_REPO:-/repo}:/verif:/verif/.deps" PYTHONHASHSEED=0 OMP_NUM_THREADS=1 MKL_NUM_THREADS=1 PYTHONDONTWRITEBYTECODE=1
exec /venv/bin/python "$@"
