#!/bin/bash
# run every check of a tier, print one summary line each (development helper)
cd "$(dirname "$0")"
TIER="${1:-quick}"
for i in 01 02 03 04 05 06 07 08 09 10 11 12 13 14 15 16 17 18 19 20; do
  s=$(date +%s)
  ./check C$i --tier "$TIER" > /verif/replays/.last_C$i.log 2>&1
  rc=$?
  e=$(( $(date +%s) - s ))
  echo "C$i rc=$rc ${e}s $(grep -c '^VIOLATION' /verif/replays/.last_C$i.log) violations $(grep -c '^KNOWN-FINDING' /verif/replays/.last_C$i.log) known $(grep -c '^INCONCLUSIVE' /verif/replays/.last_C$i.log) inconclusive"
done
