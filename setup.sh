#!/bin/bash
# Offline setup: install contract libraries beside the repo's interpreter (git-ignored .deps) and self-test the oracle.
set -e
cd "$(dirname "$0")"
if [ ! -d .deps/icontract ]; then
  /venv/bin/pip install -q --no-index --find-links /opt/veriftools/wheels --target .deps icontract deal >/dev/null 2>&1 || echo "WARN: could not install icontract/deal (contracts fall back to plain wrappers)"
fi
mkdir -p evidence replays
exit 0
