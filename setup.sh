#!/bin/bash
# Offline setup: install the contract libraries beside the repository's interpreter (git-ignored
# .deps, from the local wheelhouse) and self-test the oracle against the repository's ground truths.
cd "$(dirname "$0")"
if [ ! -d .deps/icontract ]; then
  /venv/bin/pip install -q --no-index --find-links /opt/veriftools/wheels --target .deps icontract deal >/dev/null 2>&1 \
    || echo "WARN: could not install icontract/deal (operator contracts fall back to plain wrappers)"
fi
mkdir -p evidence replays
./dbg.sh -m vf.selftest || { echo "setup: oracle selftest failed"; exit 1; }
exit 0
