#!/usr/bin/env python3
"""Collect a confirmed seeded change into /verif/seeded/<Cxx>-<n>/ (development tool).

usage: mkseeded.py <Cxx> <n> [<Cxx> <n> ...]

Writes patch.diff (the sub-agent's change re-based onto /repo HEAD through a scratch worktree),
demo.py (the demonstration: exit 1 with the change, exit 0 without), notes.md (the author's notes) and
meta.json (property, what the change needs to manifest, what was run here to confirm it and which
checks report it; all taken from seeded/_work/results.jsonl, latest record per command).
A change is only collected when the demonstration was confirmed (fails with / passes without), the
repository test-suite passed with it and no failures are recorded.
"""
import json
import os
import re
import shutil
import subprocess
import sys

sys.path.insert(0, os.path.dirname(os.path.abspath(__file__)))
import seedrun  # noqa: E402

ROOT = "/verif/seeded"
PROPS = {json.loads(l)["id"]: json.loads(l) for l in open("/verif/properties.jsonl")}


def latest():
    out = {}
    for l in open(os.path.join(ROOT, "_work", "results.jsonl")):
        d = json.loads(l)
        tier = d.get("tier")
        if d["cmd"] == "check" and d.get("seed", "0") != "0":
            tier = f"{tier} (VERIF_SEED={d['seed']})"
        out[(d["cmd"], d["prop"], str(d["n"]), d.get("check"), tier)] = d
    return out


def needs_section(notes: str) -> str:
    lines = notes.splitlines()
    for i, l in enumerate(lines):
        if re.search(r"need(s|ed)?\b.*manifest|manifest", l, re.I) and (l.startswith("#") or l.startswith("**")):
            out = [l]
            for m in lines[i + 1 :]:
                if m.startswith("#") or (m.startswith("**") and len(out) > 2 and not m.startswith("**Note")):
                    break
                out.append(m)
            return "\n".join(out).strip()[:2500]
    return ""


def main():
    args = sys.argv[1:]
    res = latest()
    head = subprocess.run("git -C /repo rev-parse --short HEAD", shell=True, capture_output=True, text=True).stdout.strip()
    for prop, n in zip(args[::2], args[1::2]):
        conf = res.get(("confirm", prop, n, None, None))
        tests = res.get(("tests", prop, n, None, None))
        if not conf or conf.get("demo_with_patch_rc") != 1 or conf.get("demo_without_rc") != 0:
            print(f"{prop}-{n}: demonstration not confirmed, skipped")
            continue
        if not tests or not re.search(r"\b\d+ passed", tests.get("tail", "")) or re.search(r"\b[1-9]\d* (failed|error)", tests.get("tail", "")):
            print(f"{prop}-{n}: test-suite not confirmed ({(tests or {}).get('tail', '')[-120:]!r}), skipped")
            continue
        d, how = seedrun.scratch(prop, n, "m")
        if d is None:
            print(f"{prop}-{n}: patch does not apply")
            continue
        diff = subprocess.run(f"git -C {d} diff", shell=True, capture_output=True, text=True).stdout
        seedrun.drop(d)
        out = os.path.join(ROOT, f"{prop}-{n}")
        os.makedirs(out, exist_ok=True)
        open(os.path.join(out, "patch.diff"), "w").write(diff)
        shutil.copy(f"/tmp/wt-{prop}/_out/demo{n}.py", os.path.join(out, "demo.py"))
        notes = open(f"/tmp/wt-{prop}/_out/notes{n}.md").read()
        open(os.path.join(out, "notes.md"), "w").write(notes)
        checks = []
        for (cmd, p, nn, chk, tier), rec in sorted(res.items(), key=lambda kv: str(kv[0])):
            if cmd == "check" and p == prop and nn == n:
                checks.append({"check": chk, "tier": tier, "exit": rec["rc"], "violations": rec["violations"], "classes": rec["classes"],
                               "inconclusive": rec.get("inconclusive", [])})
        meta = {
            "id": f"{prop}-{n}",
            "property": prop,
            "property_title": PROPS[prop]["title"],
            "applies_to": f"/repo at {head} (git -C /repo apply seeded/{prop}-{n}/patch.diff; undo with git -C /repo checkout -- .)",
            "files": re.findall(r"^\+\+\+ b/(.*)$", diff, re.M),
            "needs_to_manifest": needs_section(notes),
            "confirmed": {
                "demonstration": {"with_change_exit": conf["demo_with_patch_rc"], "without_change_exit": conf["demo_without_rc"],
                                  "command": "cd <tree> && PYTHONPATH=<tree> /venv/bin/python demo.py", "with_change_output_tail": conf.get("with_tail", "")[-300:]},
                "test_suite": {"command": "cd <tree with change> && /venv/bin/python -m pytest -q -p no:cacheprovider -n 8 <selection>",
                               "selection": tests.get("mode", "full suite (tests/)"),
                               "result_tail": tests["tail"][-200:].strip(), "wall_s": tests.get("wall")},
            },
            "checks_run": checks,
            "caught_by": sorted({c["check"] + ":" + c["tier"] for c in checks if c["exit"] == 1 and c["violations"] > 0}),
        }
        json.dump(meta, open(os.path.join(out, "meta.json"), "w"), indent=1)
        print(f"{prop}-{n}: collected; caught by {meta['caught_by']}")


if __name__ == "__main__":
    main()
