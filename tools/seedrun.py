#!/usr/bin/env python3
"""Confirm sub-agent mutations and run the checks against them (development tool).

usage: seedrun.py confirm <Cxx> <n>      apply /tmp/wt-Cxx/_out/patch<n>.diff to a scratch worktree of
                                          /repo HEAD, run the demo with and without it
       seedrun.py tests   <Cxx> <n>      run the repository test-suite on the patched scratch worktree
       seedrun.py check   <Cxx> <n> [props...] [--tier T]   run ./check <prop> with VERIF_REPO=<scratch>
Results are appended to /verif/seeded/_work/results.jsonl; scratch worktrees live under /tmp and are
removed after each command.
"""
import json
import os
import subprocess
import sys
import time

REPO = "/repo"
OUT = "/verif/seeded/_work"
os.makedirs(OUT, exist_ok=True)
ENV = dict(os.environ, OMP_NUM_THREADS="1", MKL_NUM_THREADS="1", PYTHONDONTWRITEBYTECODE="1")


def sh(cmd, **kw):
    return subprocess.run(cmd, shell=True, capture_output=True, text=True, **kw)


def scratch(prop, n, tag):
    d = f"/tmp/seed-{prop}-{n}-{tag}"
    sh(f"git -C {REPO} worktree remove --force {d}")
    r = sh(f"git -C {REPO} worktree add -q --detach {d} HEAD")
    assert r.returncode == 0, r.stderr
    patch = f"/tmp/wt-{prop}/_out/patch{n}.diff"
    r = sh(f"git -C {d} apply {patch}")
    how = "clean"
    if r.returncode != 0:
        r = sh(f"git -C {d} apply -3 {patch}")
        how = "3way"
        if r.returncode != 0:
            r = sh(f"cd {d} && patch -p1 --fuzz=3 < {patch}")
            how = "fuzz"
            if r.returncode != 0:
                sh(f"git -C {REPO} worktree remove --force {d}")
                return None, "patch does not apply: " + (r.stderr or r.stdout)[-300:]
    return d, how


def drop(d):
    sh(f"git -C {REPO} worktree remove --force {d}")


def record(rec):
    rec["time"] = time.strftime("%H:%M:%S")
    with open(os.path.join(OUT, "results.jsonl"), "a") as f:
        f.write(json.dumps(rec) + "\n")
    print(json.dumps(rec))


def main():
    cmd, prop, n = sys.argv[1], sys.argv[2], sys.argv[3]
    rest = sys.argv[4:]
    if cmd == "confirm":
        d, how = scratch(prop, n, "c")
        if d is None:
            record({"cmd": cmd, "prop": prop, "n": n, "applied": False, "note": how})
            return
        demo = f"/tmp/wt-{prop}/_out/demo{n}.py"
        w = subprocess.run(f"cd {d} && PYTHONPATH={d} timeout 600 /venv/bin/python {demo}", shell=True, capture_output=True, text=True, env=ENV)
        wo = subprocess.run(f"cd {REPO} && PYTHONPATH={REPO} timeout 600 /venv/bin/python {demo}", shell=True, capture_output=True, text=True, env=ENV)
        record({"cmd": cmd, "prop": prop, "n": n, "applied": how, "demo_with_patch_rc": w.returncode, "demo_without_rc": wo.returncode,
                "with_tail": (w.stdout + w.stderr)[-300:], "without_tail": (wo.stdout + wo.stderr)[-200:]})
        drop(d)
    elif cmd == "tests":
        d, how = scratch(prop, n, "t")
        if d is None:
            record({"cmd": cmd, "prop": prop, "n": n, "applied": False, "note": how})
            return
        t0 = time.time()
        r = subprocess.run(f"cd {d} && PYTHONPATH={d} /venv/bin/python -m pytest -q -p no:cacheprovider -n 8 --timeout=900 tests 2>&1 | tail -5", shell=True, capture_output=True, text=True, env=ENV)
        record({"cmd": cmd, "prop": prop, "n": n, "applied": how, "tail": r.stdout[-400:], "wall": round(time.time() - t0)})
        drop(d)
    elif cmd == "check":
        tier = "quick"
        if "--tier" in rest:
            i = rest.index("--tier")
            tier = rest[i + 1]
            rest = rest[:i] + rest[i + 2 :]
        props = rest or [prop]
        d, how = scratch(prop, n, "k")
        if d is None:
            record({"cmd": cmd, "prop": prop, "n": n, "applied": False, "note": how})
            return
        for p in props:
            t0 = time.time()
            env = dict(ENV, VERIF_REPO=d, VERIF_OUT="/tmp/seed-out")
            r = subprocess.run(f"cd /verif && ./check {p} --tier {tier}", shell=True, capture_output=True, text=True, env=env)
            viol = [l for l in r.stdout.splitlines() if l.startswith("VIOLATION")]
            classes = sorted({l.split("#", 1)[1].strip().split(":")[0] for l in viol if "#" in l})
            record({"cmd": cmd, "prop": prop, "n": n, "check": p, "tier": tier, "rc": r.returncode, "violations": len(viol), "classes": classes[:6],
                    "first": viol[0][-300:] if viol else "", "inconclusive": [l[:200] for l in r.stdout.splitlines() if l.startswith("INCONCLUSIVE")][:2], "wall": round(time.time() - t0)})
        drop(d)


if __name__ == "__main__":
    main()
