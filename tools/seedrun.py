#!/usr/bin/env python3
"""Confirm sub-agent mutations and run the checks against them (development tool).

usage: seedrun.py confirm <Cxx> <n>      apply /tmp/wt-Cxx/_out/patch<n>.diff (or seeded/Cxx-n/patch.diff) to a scratch worktree of
                                          /repo HEAD, run the demo with and without it
       seedrun.py tests   <Cxx> <n>      run the repository test-suite on the patched scratch worktree
       seedrun.py check   <Cxx> <n> [props...] [--tier T]   run ./check <prop> with VERIF_REPO=<scratch>
Results are appended to /verif/seeded/_work/results.jsonl; scratch worktrees live under /tmp and are
removed after each command.
"""
import json
import os
import subprocess
import sys
import time

REPO = "/repo"
OUT = "/verif/seeded/_work"
os.makedirs(OUT, exist_ok=True)
ENV = dict(os.environ, OMP_NUM_THREADS="1", MKL_NUM_THREADS="1", PYTHONDONTWRITEBYTECODE="1")


def sh(cmd, **kw):
    return subprocess.run(cmd, shell=True, capture_output=True, text=True, **kw)


def scratch(prop, n, tag):
    d = f"/tmp/seed-{prop}-{n}-{tag}"
    sh(f"git -C {REPO} worktree remove --force {d}")
    r = sh(f"git -C {REPO} worktree add -q --detach {d} HEAD")
    assert r.returncode == 0, r.stderr
    patch = f"/tmp/wt-{prop}/_out/patch{n}.diff"
    if not os.path.exists(patch):  # the sub-agent's scratch area is gone: use the kept copy
        patch = f"/verif/seeded/{prop}-{n}/patch.diff"
    r = sh(f"git -C {d} apply {patch}")
    how = "clean"
    if r.returncode != 0:
        r = sh(f"git -C {d} apply -3 {patch}")
        how = "3way"
        if r.returncode != 0:
            r = sh(f"cd {d} && patch -p1 --fuzz=3 < {patch}")
            how = "fuzz"
            if r.returncode != 0:
                sh(f"git -C {REPO} worktree remove --force {d}")
                return None, "patch does not apply: " + (r.stderr or r.stdout)[-300:]
    return d, how


NPROC = int(os.environ.get("SEEDRUN_NPROC", "8"))
COVDB = "/tmp/cov/all"


def select_tests(patch):
    """Tests that execute any function touched by the patch, from the per-test line coverage of
    HEAD (coverage.py, dynamic_context=test_function, recorded once in /tmp/cov).  None = run all
    (no coverage data, or the patch touches module / class level code)."""
    import ast
    import re
    import sqlite3

    if not os.path.exists(COVDB):
        return None
    # pre-image line numbers touched per file
    touched, cur, old_ln = {}, None, 0
    for line in open(patch):
        if line.startswith("--- a/"):
            cur = line[6:].strip()
        elif line.startswith("--- "):
            cur = None
        elif line.startswith("@@") and cur:
            old_ln = int(re.match(r"@@ -(\d+)", line).group(1))
            prev_ctx = old_ln
        elif cur and line.startswith("-") and not line.startswith("---"):
            touched.setdefault(cur, set()).add(old_ln)
            old_ln += 1
        elif cur and line.startswith("+") and not line.startswith("+++"):
            touched.setdefault(cur, set()).update({max(1, old_ln - 1), old_ln})  # insertion point: both neighbours
        elif cur and line.startswith(" "):
            old_ln += 1
    if not touched:
        return None
    db = sqlite3.connect(COVDB)
    ctx_name = dict(db.execute("select id, context from context"))
    files = {p: i for i, p in db.execute("select id, path from file")}
    sel_ctx, funcs = set(), []
    for rel, lines in touched.items():
        if not rel.startswith("cirkit/"):
            continue
        src = open(os.path.join(REPO, rel)).read()
        nlines = src.count("\n") + 1
        spans = []

        def visit(node, depth):
            for ch in ast.iter_child_nodes(node):
                if isinstance(ch, (ast.FunctionDef, ast.AsyncFunctionDef)):
                    first = min([ch.lineno] + [dd.lineno for dd in ch.decorator_list])
                    spans.append((first, ch.end_lineno, ch.name, ch.body[0].lineno))  # outermost functions only
                elif isinstance(ch, ast.ClassDef):
                    visit(ch, depth + 1)

        visit(ast.parse(src), 0)
        fid = next((i for p, i in files.items() if p.endswith("/" + rel)), None)
        for ln in lines:
            if ln > nlines:
                ln = nlines
            sp = next(((a, b, nm, bs) for a, b, nm, bs in spans if a <= ln <= b), None)
            if sp is None:
                # blank / comment lines between definitions do not execute; anything else is
                # module or class level code: run everything
                text = src.splitlines()[ln - 1].strip() if ln - 1 < len(src.splitlines()) else ""
                if text == "" or text.startswith("#"):
                    continue
                return None
            funcs.append(f"{rel}:{sp[2]}")
            if fid is None:
                continue
            for ctx_id, bits in db.execute("select context_id, numbits from line_bits where file_id = ?", (fid,)):
                got = [8 * bi + k for bi, byte in enumerate(bits) for k in range(8) if byte & (1 << k)]
                if any(sp[3] <= g <= sp[1] for g in got):  # body lines only: decorators / signature run at import
                    if not ctx_name.get(ctx_id):
                        return None  # the body runs outside any test function (import time, fixtures): run everything
                    sel_ctx.add(ctx_name[ctx_id])
    all_ids = [l.strip() for l in open("/tmp/cov/ids.txt") if l.strip()]
    pref = set()
    for c in sel_ctx:
        c = c.split("|")[0]
        parts = c.split(".")
        # tests.backend.torch.test_x.test_fn (optionally Class.test_fn)
        for cut in (1, 2):
            mod, fn = parts[:-cut], parts[-cut:]
            path = "/".join(mod) + ".py"
            if os.path.exists(os.path.join(REPO, path)):
                pref.add(path + "::" + "::".join(fn))
                break
    ids = [i for i in all_ids if any(i == p or i.startswith(p + "[") for p in pref)]
    return ids, len(all_ids), sorted(set(funcs))


def drop(d):
    sh(f"git -C {REPO} worktree remove --force {d}")


def record(rec):
    rec["time"] = time.strftime("%H:%M:%S")
    with open(os.path.join(OUT, "results.jsonl"), "a") as f:
        f.write(json.dumps(rec) + "\n")
    print(json.dumps(rec))


def main():
    cmd, prop, n = sys.argv[1], sys.argv[2], sys.argv[3]
    rest = sys.argv[4:]
    if cmd == "confirm":
        d, how = scratch(prop, n, "c")
        if d is None:
            record({"cmd": cmd, "prop": prop, "n": n, "applied": False, "note": how})
            return
        demo = f"/tmp/wt-{prop}/_out/demo{n}.py"
        if not os.path.exists(demo):
            demo = f"/verif/seeded/{prop}-{n}/demo.py"
        w = subprocess.run(f"cd {d} && PYTHONPATH={d} timeout 600 /venv/bin/python {demo}", shell=True, capture_output=True, text=True, env=ENV)
        wo = subprocess.run(f"cd {REPO} && PYTHONPATH={REPO} timeout 600 /venv/bin/python {demo}", shell=True, capture_output=True, text=True, env=ENV)
        record({"cmd": cmd, "prop": prop, "n": n, "applied": how, "demo_with_patch_rc": w.returncode, "demo_without_rc": wo.returncode,
                "with_tail": (w.stdout + w.stderr)[-300:], "without_tail": (wo.stdout + wo.stderr)[-200:]})
        drop(d)
    elif cmd == "tests":
        d, how = scratch(prop, n, "t")
        if d is None:
            record({"cmd": cmd, "prop": prop, "n": n, "applied": False, "note": how})
            return
        t0 = time.time()
        pfile = f"/tmp/wt-{prop}/_out/patch{n}.diff"
        sel = None if "--full" in rest else select_tests(pfile if os.path.exists(pfile) else f"/verif/seeded/{prop}-{n}/patch.diff")
        if sel is None:
            target, mode = "tests", "full suite"
        else:
            ids, total, funcs = sel
            mode = f"{len(ids)} of {total} tests: every test that executes a changed function ({', '.join(funcs)[:300]}) according to per-test line coverage of HEAD"
            if not ids:
                record({"cmd": cmd, "prop": prop, "n": n, "applied": how, "tail": "0 selected: no existing test executes the changed functions; 0 failed, 0 passed", "mode": mode, "wall": 0, "selected": 0})
                drop(d)
                return
            open(f"{d}/_sel.txt", "w").write("\n".join(ids) + "\n")
            target = "@_sel.txt"
        r = subprocess.run(f"cd {d} && PYTHONPATH={d} /venv/bin/python -m pytest -q -p no:cacheprovider -n {NPROC} --timeout=1800 {target} 2>&1 | tail -5", shell=True, capture_output=True, text=True, env=ENV)
        record({"cmd": cmd, "prop": prop, "n": n, "applied": how, "tail": r.stdout[-400:], "mode": mode, "selected": None if sel is None else len(sel[0]), "wall": round(time.time() - t0)})
        drop(d)
    elif cmd == "check":
        tier = "quick"
        if "--tier" in rest:
            i = rest.index("--tier")
            tier = rest[i + 1]
            rest = rest[:i] + rest[i + 2 :]
        props = rest or [prop]
        d, how = scratch(prop, n, "k")
        if d is None:
            record({"cmd": cmd, "prop": prop, "n": n, "applied": False, "note": how})
            return
        for p in props:
            t0 = time.time()
            env = dict(ENV, VERIF_REPO=d, VERIF_OUT="/tmp/seed-out")
            r = subprocess.run(f"cd /verif && ./check {p} --tier {tier}", shell=True, capture_output=True, text=True, env=env)
            viol = [l for l in r.stdout.splitlines() if l.startswith("VIOLATION")]
            classes = sorted({l.split("#", 1)[1].strip().split(":")[0] for l in viol if "#" in l})
            record({"cmd": cmd, "prop": prop, "n": n, "check": p, "tier": tier, "seed": os.environ.get("VERIF_SEED", "0"), "rc": r.returncode, "violations": len(viol), "classes": classes[:6],
                    "first": viol[0][-300:] if viol else "", "inconclusive": [l[:200] for l in r.stdout.splitlines() if l.startswith("INCONCLUSIVE")][:2], "wall": round(time.time() - t0)})
        drop(d)


if __name__ == "__main__":
    main()
