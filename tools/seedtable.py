#!/usr/bin/env python3
"""Generate /verif/seeded/README.md from seeded/*/meta.json (development tool)."""
import glob
import json
import os

ROOT = "/verif/seeded"
DROPPED = os.path.join(ROOT, "dropped.json")


def one_line(s: str, n: int = 260) -> str:
    s = " ".join(x.strip() for x in s.splitlines()[1:] if x.strip()) or " ".join(s.split())
    s = s.replace("|", "/")
    return s[:n] + ("..." if len(s) > n else "")


def main():
    rows = []
    for f in sorted(glob.glob(os.path.join(ROOT, "*", "meta.json"))):
        m = json.load(open(f))
        own = [c for c in m["checks_run"] if c["check"] == m["property"]]
        others = sorted({c["check"] for c in m["checks_run"] if c["check"] != m["property"] and c["exit"] == 1 and c["violations"] > 0})
        best = None
        for c in own:
            if c["exit"] == 1 and c["violations"] > 0 and (best is None or c["tier"] == "quick"):
                best = c
        own_txt = f"{best['tier']}: {best['violations']} x {', '.join(best['classes'][:3])}" if best else ("not caught" if own else "not run")
        rows.append((m["id"], ", ".join(os.path.basename(x) for x in m["files"]), one_line(m["needs_to_manifest"]), own_txt, ", ".join(others)))
    out = ["# Seeded changes kept for testing the checks", "",
           "Each directory: `patch.diff` (applies to /repo HEAD recorded in `meta.json`), `demo.py` (exit 1 with the change, 0 without),",
           "`notes.md` (author's notes), `meta.json` (trigger, what was run to confirm it, results of the checks).", "",
           "| change | file(s) | needs, in order to manifest | own property's check | also reported by |", "|---|---|---|---|---|"]
    for r in rows:
        out.append("| " + " | ".join(r) + " |")
    caught = sum(1 for r in rows if not r[3].startswith("not") or r[4])
    out += ["", f"{len(rows)} changes kept; {caught} reported by at least one check, {sum(1 for r in rows if not r[3].startswith('not'))} by the check of the property they were written against.", ""]
    if os.path.exists(DROPPED):
        out += ["## Not kept", ""]
        for d in json.load(open(DROPPED)):
            out.append(f"* {d['id']}: {d['reason']}")
        out.append("")
    open(os.path.join(ROOT, "README.md"), "w").write("\n".join(out))
    print("\n".join(out[-8:]))


if __name__ == "__main__":
    main()
