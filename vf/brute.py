"""Brute-force marginalisation oracle: sums over discrete domains / trapezoid quadrature over
continuous variables of the *reference* evaluation of a circuit."""
from __future__ import annotations

import itertools

import numpy as np

from cirkit.symbolic import layers as L

from vf import ref


def _cont_grid(sc, leaf, v: int, max_points: int):
    """Quadrature grid for continuous variable v from the Gaussian layers over v in sc."""
    mus, sds = [], []
    for sl in sc.layers:
        if isinstance(sl, L.GaussianLayer) and tuple(sl.scope) == (v,):
            mus.append(np.real(ref.eval_param(sl.mean, leaf)).ravel())
            sds.append(np.real(ref.eval_param(sl.stddev, leaf)).ravel())
        elif isinstance(sl, L.InputLayer) and not isinstance(sl, (L.ConstantLayer,)) and v in set(sl.scope):
            return None  # a non-Gaussian continuous layer (polynomial): no finite integral
    if not mus:
        return None
    mu, sd = np.concatenate(mus), np.concatenate(sds)
    if not np.all(np.isfinite(mu)) or not np.all(sd > 0):
        return None
    lo, hi = float(np.min(mu - 13.0 * sd)), float(np.max(mu + 13.0 * sd))
    h = float(np.min(sd)) / 6.0
    n = int(np.ceil((hi - lo) / h)) + 1
    if n > max_points:
        return None
    xs = np.linspace(lo, hi, n)
    w = np.full(n, xs[1] - xs[0])
    w[0] *= 0.5
    w[-1] *= 0.5
    return xs, w


def marginal(sc, leaf, domains: dict, Y: np.ndarray, Z, *, max_rows: int = 250_000, max_cont_points: int = 6000):
    """sum / integral over the variables Z of the reference of sc at the rows of Y (the Z columns
    of Y are ignored).  Returns (values (B,O,K), abs-scale (B,O,K)) or None when the grid would be
    too large (the caller records the sub-check as not decided)."""
    Z = sorted(Z)
    grids, weights = [], []
    for v in Z:
        d = domains[v]
        if d[0] == "disc":
            grids.append(np.arange(d[1], dtype=np.float64))
            weights.append(np.ones(d[1]))
        else:
            g = _cont_grid(sc, leaf, v, max_cont_points)
            if g is None:
                return None
            grids.append(g[0])
            weights.append(g[1])
    T = int(np.prod([len(g) for g in grids])) if grids else 1
    B = Y.shape[0]
    if B * T > max_rows:
        B = max(1, max_rows // T)
        if B * T > max_rows:
            return None
        Y = Y[:B]
    cont = any(d[0] == "cont" for d in domains.values())
    Xb = np.repeat(Y.astype(np.float64 if cont else Y.dtype), T, axis=0)
    W = np.ones(T)
    if grids:
        mesh = np.meshgrid(*grids, indexing="ij")
        wmesh = np.meshgrid(*weights, indexing="ij")
        W = np.prod(np.stack([w.ravel() for w in wmesh]), axis=0)
        for v, m in zip(Z, mesh):
            col = np.tile(m.ravel(), B)
            Xb[:, v] = col if cont else col.astype(Y.dtype)
    r = ref.eval_circuit(sc, leaf, Xb)
    a = ref.eval_circuit(sc, leaf, Xb, absmode=True)
    r = r.reshape(B, T, *r.shape[1:])
    a = a.reshape(B, T, *a.shape[1:])
    val = np.tensordot(r, W, axes=([1], [0]))
    sca = np.tensordot(a, W, axes=([1], [0]))
    return val, sca, B
