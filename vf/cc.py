"""Compile / evaluate helpers shared by property modules."""
from __future__ import annotations

import numpy as np
import torch

from cirkit.backend.torch.compiler import TorchCompiler

from vf import ref, structs, tie
from vf.common import Result, call, compare_semiring, exc_violation

FLAGS = [(False, False), (True, False), (False, True), (True, True)]  # (fold, optimize)


def flag_name(fold: bool, optimize: bool) -> str:
    return f"fold={int(fold)},opt={int(optimize)}"


def new_compiler(semiring: str, fold: bool, optimize: bool) -> TorchCompiler:
    return TorchCompiler(semiring=semiring, fold=fold, optimize=optimize)


def to_tensor(X: np.ndarray | None):
    if X is None:
        return None
    return torch.from_numpy(np.ascontiguousarray(X))


def evaluate(cc, X: np.ndarray | None) -> np.ndarray:
    with torch.no_grad():
        y = cc(to_tensor(X))
    return y.detach().numpy()


def reference(sc, compiler, X, nrows=None):
    leaf = tie.leaf_reader(compiler)
    r = ref.eval_circuit(sc, leaf, X, nrows=nrows)
    a = ref.eval_circuit(sc, leaf, X, absmode=True, nrows=nrows)
    return r, a


def expected_shape(sc, B: int):
    return (B, len(sc.outputs), sc.outputs[0].num_output_units)


def check_value(res: Result, sc, compiler, cc, X, semiring: str, tag: str, tol="exact", *, r=None, a=None) -> bool:
    """Evaluate cc on X and compare with the reference under the compiler's current valuation.
    Records a violation (value / shape / exception) and returns False on mismatch."""
    if r is None:
        r, a = reference(sc, compiler, X)
    if not np.all(np.isfinite(a)):
        res.count("skipped_nonfinite_reference")  # the valuation left float64 range: nothing to decide
        return True
    out = call(evaluate, cc, X)
    if not out.ok:
        exc_violation(res, out, f"evaluating compiled circuit [{tag}] B={None if X is None else X.shape[0]}")
        return False
    got = out.value
    exp_shape = r.shape
    if not sc.scope:
        # documented: circuits with empty scope squeeze the batch dimension
        r, a = r[0], a[0]
        exp_shape = r.shape
    if got.shape != exp_shape:
        res.violate("output-shape", f"[{tag}] output shape {got.shape}, expected {exp_shape} (B,O,K)")
        return False
    ok, idx, msg = compare_semiring(got, r, a, semiring, tol)
    res.count("values_compared", int(np.prod(got.shape)))
    if not ok:
        msg = _classify_complex_nan(cc, X, got, r, a, semiring, tol, msg)
        res.violate("value-mismatch", f"[{tag}] B={None if X is None else X.shape[0]} at (b,o,k)={idx}: {msg}")
        return False
    return True


def monotone_ok(sc, compiler) -> bool:
    """True if under the current valuation every sum weight and input value used is >= 0 and
    real (lse-sum is only defined there)."""
    leaf = tie.leaf_reader(compiler)
    from cirkit.symbolic import layers as L

    for sl in sc.layers:
        if isinstance(sl, L.SumLayer):
            w = ref.eval_param(sl.weight, leaf)
            if np.iscomplexobj(w) or (w < 0).any():
                return False
    return True


def nan_born_from_exact_zero(cc_, X) -> bool:
    """Runtime witness for the known complex-lse-sum defect: re-run the compiled circuit with forward
    hooks on its layers and find the first layer whose output holds NaN while none of its tensor
    inputs does.  True iff that layer is an inner layer whose inputs contain an exactly-zero unit
    (real part -inf): torch's complex addition turns (-inf+aj) + z into -inf+nanj in vectorised lanes,
    and the NaN then spreads to every output that depends on it."""
    import torch

    def has_nan(t):
        return bool(torch.isnan(torch.view_as_real(t) if t.is_complex() else t).any())

    first = []

    def hook(mod, args, out):
        if first or not isinstance(out, torch.Tensor) or not has_nan(out):
            return
        ins = [a_ for a_ in args if isinstance(a_, torch.Tensor) and (a_.is_complex() or a_.is_floating_point())]
        if any(has_nan(a_) for a_ in ins):
            return
        first.append(any(a_.is_complex() and bool(torch.isneginf(a_.real).any()) for a_ in ins))

    handles = [l.register_forward_hook(hook) for l in cc_.layers]
    try:
        call(evaluate, cc_, X)
    finally:
        for h_ in handles:
            h_.remove()
    return bool(first and first[0])


def _nan_only_mismatch(got, expected, scale, tol) -> bool:
    """Every entry that fails the linear-space comparison is NaN in the output."""
    from vf.common import TOL, to_linear

    lin = to_linear(got, "complex-lse-sum")
    ref_ = np.asarray(expected)
    t = TOL[tol]
    with np.errstate(invalid="ignore"):
        bad = ~(np.abs(lin - ref_) <= t["rel"] * np.maximum(np.abs(np.asarray(scale)), np.abs(ref_)) + t["abs"])
    return bool(bad.any() and np.all(np.isnan(lin[bad])))


def _classify_complex_nan(cc_, X, got, expected, scale, semiring, tol, msg) -> str:
    from vf.common import NAN_AT_ZERO

    if semiring == "complex-lse-sum" and NAN_AT_ZERO not in msg and _nan_only_mismatch(got, expected, scale, tol) and nan_born_from_exact_zero(cc_, X):
        return f"{NAN_AT_ZERO} (complex-lse-sum; NaN first produced by a layer with an exactly-zero input unit): " + msg
    return msg


def check_expected(res: Result, cc_, X, expected, scale, semiring: str, tag: str, tol="exact", vclass="value-mismatch", **extra) -> bool:
    """Evaluate a compiled circuit and compare with an expected linear-space array."""
    out = call(evaluate, cc_, X)
    if not out.ok:
        exc_violation(res, out, f"evaluating [{tag}]")
        return False
    got = out.value
    if got.shape != np.asarray(expected).shape:
        res.violate("output-shape", f"[{tag}] output shape {got.shape}, expected {np.asarray(expected).shape}")
        return False
    ok, idx, msg = compare_semiring(got, expected, scale, semiring, tol)
    res.count("values_compared", int(np.prod(got.shape)))
    if not ok:
        msg = _classify_complex_nan(cc_, X, got, expected, scale, semiring, tol, msg)
        res.violate(vclass, f"[{tag}] at {idx}: {msg}", **extra)
        return False
    return True


def compile_in(res: Result, comp, sc, what: str):
    out = call(comp.compile, sc)
    if not out.ok:
        exc_violation(res, out, f"compile {what}")
        return None
    return out.value


def build_or_refuse(res: Result, fn):
    """Run a workload-construction step that calls real operators: a MonitorViolation (contract /
    shape hook) is a violation, any other exception is a recorded refusal."""
    from vf.monitors import MonitorViolation

    o = call(fn)
    if o.ok:
        return o.value
    if isinstance(o.exc, MonitorViolation):
        exc_violation(res, o, "building the workload")
    else:
        res.status = "refused"
        res.note = f"{o.exc_type}: {str(o.exc)[:200]} @ {o.where()}"
        res.features.add("refused:" + o.exc_type)
    return None


def input_pool(nrng, domains: dict, n_random: int = 7, limit: int = 128):
    from vf import gen

    pool = gen.all_assignments(domains, limit=limit)
    if pool is None:
        pool = gen.random_inputs(nrng, domains, n_random)
    return pool
