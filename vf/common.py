"""Shared helpers for property modules: outcome capture, comparisons, result records."""
from __future__ import annotations

import hashlib
import json
import os
import random
import traceback
from dataclasses import dataclass, field

import numpy as np


def repo_root() -> str:
    return os.path.realpath(os.environ.get("VERIF_REPO", "/repo"))


def case_rng(prop: str, seed: int, idx) -> random.Random:
    h = hashlib.sha256(f"{prop}|{seed}|{idx}".encode()).digest()
    return random.Random(int.from_bytes(h[:8], "big"))


def np_rng(rng: random.Random) -> np.random.Generator:
    return np.random.default_rng(rng.getrandbits(63))


def short_hash(obj) -> str:
    return hashlib.sha256(json.dumps(obj, sort_keys=True, default=str).encode()).hexdigest()[:12]


NAN_AT_ZERO = "NAN-AT-EXACT-ZERO"


class Outcome:
    """Outcome of a call into the library under test."""

    def __init__(self, value=None, exc: BaseException | None = None, tb: str = ""):
        self.value = value
        self.exc = exc
        self.tb = tb

    @property
    def ok(self) -> bool:
        return self.exc is None

    @property
    def exc_type(self) -> str:
        return type(self.exc).__name__ if self.exc is not None else ""

    def where(self) -> str:
        """Deepest traceback frame inside the repository (file:function)."""
        if self.exc is None:
            return ""
        root = repo_root()
        last = ""
        for fr in traceback.extract_tb(self.exc.__traceback__):
            fn = os.path.realpath(fr.filename)
            if fn.startswith(root + os.sep):
                last = f"{os.path.relpath(fn, root)}:{fr.name}"
        return last


def call(fn, *a, **kw) -> Outcome:
    """Run fn capturing any exception (monitor violations included)."""
    try:
        return Outcome(value=fn(*a, **kw))
    except Exception as e:  # pylint: disable=broad-except
        return Outcome(exc=e, tb="".join(traceback.format_exception(type(e), e, e.__traceback__)[-6:]))


@dataclass
class Result:
    """Per-case record streamed by workers."""

    status: str = "ok"  # ok | violation | refused | skip | error | timeout
    features: set = field(default_factory=set)
    sig: str = ""
    nontrivial: bool = True
    violations: list = field(default_factory=list)  # [{vclass, detail}]
    obs: dict = field(default_factory=dict)  # counters of what was observed
    note: str = ""

    def violate(self, vclass: str, detail: str, **extra):
        self.status = "violation"
        if NAN_AT_ZERO in detail:
            # complex-lse-sum represents 0 as -inf+0j; torch's complex addition of two such values
            # gives -inf+nanj, hence NaN wherever two exact zeros are multiplied (separate class)
            vclass = "nan-at-exact-zero"
        v = {"vclass": vclass, "detail": detail[:1500]}
        v.update(extra)
        self.violations.append(v)

    def count(self, key: str, n: int = 1):
        self.obs[key] = self.obs.get(key, 0) + n

    def to_json(self) -> dict:
        return {
            "status": self.status,
            "features": sorted(self.features),
            "sig": self.sig,
            "nontrivial": self.nontrivial,
            "violations": self.violations,
            "obs": self.obs,
            "note": self.note,
        }


def exc_violation(res: Result, out: Outcome, what: str, vclass_prefix: str = "exception"):
    """Record an unexpected exception from the library as a violation, or re-raise the monitor's."""
    from vf.monitors import MonitorViolation

    if isinstance(out.exc, MonitorViolation):
        res.violate(out.exc.vclass, f"{what}: {out.exc.detail}")
    else:
        res.violate(
            f"{vclass_prefix}:{out.exc_type}",
            f"{what}: {out.exc_type}: {str(out.exc)[:300]} @ {out.where()}",
            where=out.where(),
        )


# ------------------------------------------------------------------------------------------
# numeric comparison (tolerances are part of the oracle; one table)
# ------------------------------------------------------------------------------------------
TOL = {
    "exact": dict(rel=1e-9, abs=1e-12),  # plain float64 pipelines
    "fft": dict(rel=1e-7, abs=1e-10),  # goes through FFT or log(exp()) of small numbers
    "log": dict(rel=1e-8, abs=1e-8),  # comparisons in log space
    "grad": dict(rel=2e-5, abs=1e-7),  # finite differences
    "quad": dict(rel=1e-6, abs=1e-9),  # numerical quadrature
}


def close_lin(got, ref, scale, tol="exact"):
    """|got - ref| <= rel*scale + abs, elementwise; returns (ok, worst index, worst err).
    NaN / inf in got where ref is finite is a mismatch."""
    t = TOL[tol]
    got = np.asarray(got)
    ref = np.asarray(ref)
    if got.shape != ref.shape:
        return False, None, f"shape {got.shape} != {ref.shape}"
    scale = np.maximum(np.abs(np.asarray(scale)), np.abs(ref))
    err = np.abs(got - ref)
    bound = t["rel"] * scale + t["abs"]
    bad = ~(err <= bound)  # NaN -> bad
    if bad.any():
        idx = np.unravel_index(np.argmax(np.where(np.isnan(err), np.inf, err / (bound + 1e-300))), err.shape)
        return False, tuple(int(i) for i in idx), f"got {got[idx]!r} ref {ref[idx]!r} scale {scale[idx]!r}"
    return True, None, ""


def to_linear(y, semiring: str):
    """Map a compiled circuit's output to linear space."""
    y = np.asarray(y)
    if semiring == "sum-product":
        return y
    with np.errstate(over="ignore", invalid="ignore"):
        return np.exp(y)


def compare_semiring(got, ref, ref_abs, semiring: str, tol="exact"):
    """Compare a compiled output (in its semiring) with the linear-space reference.
    For lse-sum the comparison is done in log space where ref > 0 (catches wrong values hidden by
    exp underflow) and exactly -inf is demanded where ref == 0."""
    got = np.asarray(got)
    if got.shape != np.asarray(ref).shape:
        return False, None, f"shape {got.shape} != {np.asarray(ref).shape}"
    if semiring == "lse-sum":
        ref = np.real(ref)
        pos = ref > 0
        with np.errstate(divide="ignore"):
            lref = np.log(np.where(pos, ref, 1.0))
        t = TOL["log"]
        # cancellation-aware: d(log r) = dr / r ; allowed dr = rel * ref_abs
        with np.errstate(divide="ignore", invalid="ignore"):
            slack = t["abs"] + t["rel"] * np.where(pos, np.abs(ref_abs) / np.where(pos, ref, 1.0), 0.0)
            # a subnormal reference value carries few significant bits (spacing 4.94e-324): its
            # own relative rounding error (and that of the subnormal intermediate products it was computed
            # from: 64 spacings) bounds what the log-space comparison can resolve
            slack = slack + np.where(pos & (ref < 1e-300), 64.0 * 4.95e-324 / np.where(pos, ref, 1.0), 0.0)
        err = np.abs(np.where(pos, got - lref, 0.0))
        bad = pos & ~(err <= slack)
        zero_bad = (~pos) & ~(np.isneginf(got) | (got < -650.0))
        bad = bad | zero_bad
        if bad.any():
            idx = tuple(int(i) for i in np.argwhere(bad)[0])
            return False, idx, f"log-got {got[idx]!r} log-ref {lref[idx]!r} (ref {ref[idx]!r})"
        return True, None, ""
    lin = to_linear(got, semiring)
    ok, idx, msg = close_lin(lin, ref, ref_abs, tol)
    if not ok and semiring == "complex-lse-sum" and idx is not None:
        refa = np.asarray(ref)
        t = TOL[tol]
        err = np.abs(lin - refa)
        bad = ~(err <= t["rel"] * np.maximum(np.abs(np.asarray(ref_abs)), np.abs(refa)) + t["abs"])
        if np.all(np.isnan(lin[bad]) & (refa[bad] == 0)):
            msg = f"{NAN_AT_ZERO} (complex-lse-sum): " + msg
    return ok, idx, msg
