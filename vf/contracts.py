"""Runtime contracts on the real symbolic operators (cirkit.symbolic.functional.*).

Installed in every worker (ambient): while *any* workload runs, each call of an operator is
classified beforehand with the independent structural model (vf.structs) -- must it refuse? --
and its result is checked afterwards (postconditions of property C09).  Postconditions are
icontract `ensure` contracts when icontract is importable (setup installs it into /verif/.deps),
plain assertions otherwise.  A broken contract raises MonitorViolation, which the harness reports
as a violation of C09 in whichever run observed it.
"""
from __future__ import annotations

import collections
import functools

from vf import structs
from vf.monitors import MonitorViolation

COUNTS: collections.Counter = collections.Counter()
_installed = False
ENABLED = True

try:  # pragma: no cover
    import icontract

    HAVE_ICONTRACT = True
except Exception:  # pylint: disable=broad-except
    icontract = None
    HAVE_ICONTRACT = False


class ContractBroken(MonitorViolation):
    def __init__(self, detail: str = ""):
        super().__init__("contract", detail)


def _viol(op: str, what: str, detail: str):
    COUNTS[f"{op}:VIOLATION"] += 1
    raise MonitorViolation(f"contract:{op}:{what}", detail)


def _desc(sc) -> str:
    return f"Circuit(layers={len(sc.layers)}, outputs={len(sc.outputs)}, scope={sorted(structs.circuit_scope(sc))})"


def _valid_sd(sc) -> bool:
    return structs.is_smooth(sc) and structs.is_decomposable(sc)


# -- postconditions (named functions, usable both by icontract.ensure and directly) -----------
def post_smooth_decomposable(result) -> bool:
    return structs.is_smooth(result) and structs.is_decomposable(result)


def _ensure(op: str, what: str, cond: bool, detail: str):
    COUNTS[f"{op}:post-evaluated"] += 1
    if not cond:
        _viol(op, what, detail)


def install() -> None:
    global _installed
    if _installed:
        return
    _installed = True
    import cirkit.symbolic.functional as SF
    from cirkit.symbolic.circuit import StructuralPropertyError

    o_integrate, o_multiply, o_diff = SF.integrate, SF.multiply, SF.differentiate
    o_conj, o_evi, o_cat = SF.conjugate, SF.evidence, SF.concatenate

    def _ic(post_fn, op, what):
        """Wrap fn's postcondition as an icontract.ensure when available."""

        def deco(fn):
            if not HAVE_ICONTRACT:
                return fn
            return icontract.ensure(post_fn, error=lambda result: MonitorViolation(f"contract:{op}:{what}", _desc(result)))(fn)

        return deco

    # icontract-decorated cores: the generic "result is smooth and decomposable" postcondition
    ic_integrate = _ic(post_smooth_decomposable, "integrate", "result-not-smooth-decomposable")(
        lambda sc, scope=None, **kw: o_integrate(sc, scope, **kw)
    )
    ic_diff = _ic(post_smooth_decomposable, "differentiate", "result-not-smooth-decomposable")(
        lambda sc, order=1, **kw: o_diff(sc, order, **kw)
    )
    ic_multiply = _ic(post_smooth_decomposable, "multiply", "result-not-smooth-decomposable")(
        lambda sc1, sc2, **kw: o_multiply(sc1, sc2, **kw)
    )

    @functools.wraps(o_integrate)
    def integrate(sc, scope=None, **kw):
        if not ENABLED:
            return o_integrate(sc, scope, **kw)
        COUNTS["integrate:calls"] += 1
        valid = _valid_sd(sc)
        cscope = structs.circuit_scope(sc)
        z = cscope if scope is None else frozenset(int(v) for v in scope)
        arg_ok = bool(z) and z <= cscope
        try:
            r = ic_integrate(sc, scope, **kw)
        except MonitorViolation:
            raise
        except Exception as e:
            if not valid:
                if not isinstance(e, (StructuralPropertyError, ValueError)) or (arg_ok and not isinstance(e, StructuralPropertyError)):
                    _viol("integrate", "wrong-refusal-type", f"{type(e).__name__} on non smooth/decomposable {_desc(sc)}")
                COUNTS["integrate:refused-structure"] += 1
            elif not arg_ok:
                if not isinstance(e, ValueError):
                    _viol("integrate", "wrong-refusal-type", f"{type(e).__name__} for scope {sorted(z)} of {_desc(sc)}")
                COUNTS["integrate:refused-scope"] += 1
            else:
                COUNTS["integrate:raised-other"] += 1
            raise
        COUNTS["integrate:returned"] += 1
        if not valid:
            _viol("integrate", "returned-on-invalid-structure", _desc(sc))
        if not arg_ok:
            _viol("integrate", "accepted-invalid-scope", f"scope {sorted(z)} for {_desc(sc)}")
        _ensure("integrate", "result-not-smooth-decomposable", post_smooth_decomposable(r), _desc(r))
        _ensure("integrate", "wrong-scope", structs.circuit_scope(r) == cscope - z, f"{sorted(structs.circuit_scope(r))} != {sorted(cscope - z)}")
        _ensure("integrate", "wrong-num-outputs", len(r.outputs) == len(sc.outputs), f"{len(r.outputs)} != {len(sc.outputs)}")
        return r

    @functools.wraps(o_diff)
    def differentiate(sc, order=1, **kw):
        if not ENABLED:
            return o_diff(sc, order, **kw)
        COUNTS["differentiate:calls"] += 1
        valid = _valid_sd(sc)
        arg_ok = isinstance(order, int) and order >= 1
        try:
            r = ic_diff(sc, order, **kw)
        except MonitorViolation:
            raise
        except Exception as e:
            if not valid:
                if not isinstance(e, (StructuralPropertyError, ValueError)) or (arg_ok and not isinstance(e, StructuralPropertyError)):
                    _viol("differentiate", "wrong-refusal-type", f"{type(e).__name__} on non smooth/decomposable {_desc(sc)}")
                COUNTS["differentiate:refused-structure"] += 1
            elif not arg_ok:
                if not isinstance(e, ValueError):
                    _viol("differentiate", "wrong-refusal-type", f"{type(e).__name__} for order {order}")
                COUNTS["differentiate:refused-order"] += 1
            else:
                COUNTS["differentiate:raised-other"] += 1
            raise
        COUNTS["differentiate:returned"] += 1
        if not valid:
            _viol("differentiate", "returned-on-invalid-structure", _desc(sc))
        if not arg_ok:
            _viol("differentiate", "accepted-invalid-order", f"order {order}")
        scopes = structs.layer_scopes(sc)
        _ensure("differentiate", "result-not-smooth-decomposable", post_smooth_decomposable(r), _desc(r))
        _ensure("differentiate", "wrong-scope", structs.circuit_scope(r) == structs.circuit_scope(sc), "scope changed")
        exp_out = sum(len(scopes[o]) + 1 for o in sc.outputs)
        _ensure("differentiate", "wrong-num-outputs", len(r.outputs) == exp_out, f"{len(r.outputs)} != {exp_out}")
        return r

    @functools.wraps(o_multiply)
    def multiply(sc1, sc2, **kw):
        if not ENABLED:
            return o_multiply(sc1, sc2, **kw)
        COUNTS["multiply:calls"] += 1
        s1, s2 = structs.circuit_scope(sc1), structs.circuit_scope(sc2)
        compat = structs.compatible_necessary(sc1, sc2)
        try:
            r = ic_multiply(sc1, sc2, **kw)
        except MonitorViolation:
            raise
        except Exception:
            COUNTS["multiply:refused" if not compat or s1 != s2 else "multiply:raised-on-compatible"] += 1
            raise
        COUNTS["multiply:returned"] += 1
        if not compat:
            _viol("multiply", "returned-on-incompatible", f"{_desc(sc1)} x {_desc(sc2)}")
        _ensure("multiply", "result-not-smooth-decomposable", post_smooth_decomposable(r), _desc(r))
        _ensure("multiply", "wrong-scope", structs.circuit_scope(r) == s1 == s2, f"{sorted(structs.circuit_scope(r))} vs {sorted(s1)} / {sorted(s2)}")
        _ensure("multiply", "wrong-num-outputs", len(r.outputs) == len(sc1.outputs) * len(sc2.outputs), f"{len(r.outputs)}")
        if structs.same_split_everywhere(sc1) and structs.same_split_everywhere(sc2):
            _ensure("multiply", "result-not-structured", structs.same_split_everywhere(r), _desc(r))
            _ensure("multiply", "result-not-compatible-with-operands", structs.same_split_everywhere(r, sc1) and structs.same_split_everywhere(r, sc2), _desc(r))
        return r

    @functools.wraps(o_conj)
    def conjugate(sc, **kw):
        if not ENABLED:
            return o_conj(sc, **kw)
        COUNTS["conjugate:calls"] += 1
        r = o_conj(sc, **kw)
        COUNTS["conjugate:returned"] += 1
        _ensure("conjugate", "smooth-flag-changed", structs.is_smooth(r) == structs.is_smooth(sc), _desc(r))
        _ensure("conjugate", "decomposable-flag-changed", structs.is_decomposable(r) == structs.is_decomposable(sc), _desc(r))
        _ensure("conjugate", "structured-flag-changed", structs.is_structured_decomposable_model(r) == structs.is_structured_decomposable_model(sc), _desc(r))
        _ensure("conjugate", "library-flags-changed", r.properties == sc.properties, f"{r.properties} vs {sc.properties}")
        _ensure("conjugate", "wrong-scope", structs.circuit_scope(r) == structs.circuit_scope(sc), "scope changed")
        _ensure("conjugate", "wrong-num-outputs", len(r.outputs) == len(sc.outputs), f"{len(r.outputs)}")
        return r

    @functools.wraps(o_evi)
    def evidence(sc, obs, **kw):
        if not ENABLED:
            return o_evi(sc, obs, **kw)
        COUNTS["evidence:calls"] += 1
        cscope = structs.circuit_scope(sc)
        try:
            z = frozenset(int(v) for v in obs.keys())
        except Exception:  # pylint: disable=broad-except
            z = None
        arg_ok = z is not None and bool(z) and z <= cscope
        try:
            r = o_evi(sc, obs, **kw)
        except Exception as e:
            if not arg_ok:
                if not isinstance(e, ValueError):
                    _viol("evidence", "wrong-refusal-type", f"{type(e).__name__} for obs {obs}")
                COUNTS["evidence:refused-args"] += 1
            else:
                COUNTS["evidence:raised-other"] += 1
            raise
        COUNTS["evidence:returned"] += 1
        if not arg_ok:
            _viol("evidence", "accepted-invalid-observation", f"obs over {sorted(z) if z is not None else obs} for {_desc(sc)}")
        _ensure("evidence", "wrong-scope", structs.circuit_scope(r) == cscope - z, f"{sorted(structs.circuit_scope(r))} != {sorted(cscope - z)}")
        _ensure("evidence", "wrong-num-outputs", len(r.outputs) == len(sc.outputs), f"{len(r.outputs)}")
        if _valid_sd(sc):
            _ensure("evidence", "result-not-smooth-decomposable", post_smooth_decomposable(r), _desc(r))
        return r

    @functools.wraps(o_cat)
    def concatenate(scs, **kw):
        if not ENABLED:
            return o_cat(scs, **kw)
        COUNTS["concatenate:calls"] += 1
        scs = list(scs)
        r = o_cat(scs, **kw)
        COUNTS["concatenate:returned"] += 1
        exp_scope = frozenset().union(*[structs.circuit_scope(s) for s in scs]) if scs else frozenset()
        _ensure("concatenate", "wrong-scope", structs.circuit_scope(r) == exp_scope, "scope")
        _ensure("concatenate", "wrong-num-outputs", len(r.outputs) == sum(len(s.outputs) for s in scs), f"{len(r.outputs)}")
        if all(_valid_sd(s) for s in scs):
            _ensure("concatenate", "result-not-smooth-decomposable", post_smooth_decomposable(r), _desc(r))
        return r

    SF.integrate, SF.multiply, SF.differentiate = integrate, multiply, differentiate
    SF.conjugate, SF.evidence, SF.concatenate = conjugate, evidence, concatenate


def snapshot() -> dict:
    return dict(COUNTS)
