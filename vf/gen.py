"""Workload generators: random well-formed symbolic circuits, compatible pairs, inputs.

Everything is driven by a python `random.Random` seeded from (VERIF_SEED, property, case index),
so a case is replayed by regenerating it from its descriptor {gen, seed, cfg}.
"""
from __future__ import annotations

import itertools
import random
from dataclasses import dataclass, field, asdict
from typing import Any

import numpy as np

from cirkit.symbolic.circuit import Circuit
from cirkit.symbolic.dtypes import DataType
from cirkit.symbolic.initializers import (
    DirichletInitializer,
    NormalInitializer,
    UniformInitializer,
)
from cirkit.symbolic import layers as L
from cirkit.symbolic import parameters as P
from cirkit.utils.scope import Scope

# ------------------------------------------------------------------------------------------
# variable id sets.  Scope iterates a frozenset: for small ints the iteration order is the hash
# table order, e.g. {8, 1, 2} iterates 8, 1, 2.  The "unsorted" sets below are such cases.
# ------------------------------------------------------------------------------------------
SPARSE_ID_SETS = {
    1: [[0], [3], [9]],
    2: [[1, 8], [0, 5], [8, 9], [2, 16]],
    3: [[8, 1, 2], [3, 9, 16], [0, 2, 5], [9, 3, 5], [1, 4, 8]],
    4: [[8, 1, 2, 3], [0, 2, 4, 9], [16, 1, 9, 3], [1, 8, 9, 17]],
    5: [[8, 1, 2, 3, 4], [0, 3, 5, 9, 16], [1, 2, 8, 9, 11]],
    6: [[8, 1, 2, 3, 4, 5], [0, 2, 4, 6, 9, 16]],
}


def choose_var_ids(rng: random.Random, n: int, mode: str) -> list[int]:
    if mode == "contiguous":
        return list(range(n))
    if mode == "sparse":
        return list(rng.choice(SPARSE_ID_SETS[n]))
    # random injection into 0..20
    return sorted(rng.sample(range(0, 21), n))


def iter_unsorted(ids) -> bool:
    return list(Scope(ids)) != sorted(ids)


# ------------------------------------------------------------------------------------------
# region structure
# ------------------------------------------------------------------------------------------
@dataclass
class Region:
    scope: tuple
    parts: list = field(default_factory=list)  # list[list[Region]]

    def describe(self):
        if not self.parts:
            return list(self.scope)
        return {"scope": list(self.scope), "parts": [[c.describe() for c in p] for p in self.parts]}


def _random_partition(rng: random.Random, vs: list[int], max_parts: int) -> list[list[int]]:
    k = rng.randint(2, min(max_parts, len(vs)))
    vs = vs[:]
    rng.shuffle(vs)
    parts = [[] for _ in range(k)]
    for i, v in enumerate(vs):
        if i < k:
            parts[i].append(v)
        else:
            parts[rng.randrange(k)].append(v)
    return [sorted(p) for p in parts]


def gen_region(
    rng: random.Random,
    vs,
    *,
    max_parts: int = 3,
    multi_part_prob: float = 0.0,
    memo: dict | None = None,
) -> Region:
    """Random recursive partitioning.  With memo (structured): a scope always gets the same
    single partitioning.  multi_part_prob > 0: a region may have two different partitionings
    (then the circuit is not structured decomposable)."""
    key = tuple(sorted(vs))
    if memo is not None and key in memo:
        return memo[key]
    reg = Region(key)
    if len(key) > 1:
        nparts = 2 if (len(key) > 2 and rng.random() < multi_part_prob) else 1
        seen = set()
        for _ in range(nparts):
            for _try in range(5):
                part = _random_partition(rng, list(key), max_parts)
                sig = frozenset(tuple(p) for p in part)
                if sig not in seen:
                    seen.add(sig)
                    break
            else:
                continue
            reg.parts.append(
                [
                    gen_region(rng, p, max_parts=max_parts, multi_part_prob=multi_part_prob, memo=memo)
                    for p in part
                ]
            )
    if memo is not None:
        memo[key] = reg
    return reg


# ------------------------------------------------------------------------------------------
# parameter factories
# ------------------------------------------------------------------------------------------
def _tensor(shape, init=None, *, dtype=DataType.REAL, learnable=True):
    return P.TensorParameter(
        *shape, initializer=init or NormalInitializer(), dtype=dtype, learnable=learnable
    )


MONO_WEIGHT_KINDS = ["softmax", "exp", "softplus", "sigmoid", "square", "scaled_sigmoid", "clamp", "const_pos", "dirichlet"]
MONO_WEIGHT_KINDS = MONO_WEIGHT_KINDS + ["softmax0"]
ANY_WEIGHT_KINDS = MONO_WEIGHT_KINDS + ["raw", "raw", "hadamard2", "sum2", "const", "log_softmax", "log_softmax0", "frozen", "frozen"]
MONO_WEIGHT_KINDS = MONO_WEIGHT_KINDS + ["frozen_pos"]


def weight_param(rng: random.Random, kind: str, shape, *, dtype=DataType.REAL) -> P.Parameter:
    if kind == "raw":
        return P.Parameter.from_input(_tensor(shape, dtype=dtype))
    if kind == "frozen":  # frozen random features: not learnable, but not a constant either
        return P.Parameter.from_input(_tensor(shape, NormalInitializer(0.0, 1.0), learnable=False))
    if kind == "frozen_pos":
        return P.Parameter.from_input(_tensor(shape, UniformInitializer(0.1, 1.5), learnable=False))
    if kind == "softmax":
        return P.Parameter.from_unary(P.SoftmaxParameter(shape, axis=rng.choice([1, -1])), _tensor(shape))
    if kind == "softmax0":  # normalised over the first axis (not the last one)
        return P.Parameter.from_unary(P.SoftmaxParameter(shape, axis=rng.choice([0, -len(shape)])), _tensor(shape))
    if kind in ("log_softmax", "log_softmax0"):  # Log o Softmax: rewritten to LogSoftmax by the optimiser
        ax = rng.choice([1, -1]) if kind == "log_softmax" else rng.choice([0, -len(shape)])
        return P.Parameter.from_sequence(_tensor(shape), P.SoftmaxParameter(shape, axis=ax), P.LogParameter(shape))
    if kind == "exp":
        return P.Parameter.from_unary(P.ExpParameter(shape), _tensor(shape, NormalInitializer(0.0, 0.5)))
    if kind == "softplus":
        return P.Parameter.from_unary(P.SoftplusParameter(shape), _tensor(shape))
    if kind == "sigmoid":
        return P.Parameter.from_unary(P.SigmoidParameter(shape), _tensor(shape))
    if kind == "square":
        return P.Parameter.from_unary(P.SquareParameter(shape), _tensor(shape))
    if kind == "scaled_sigmoid":
        return P.Parameter.from_unary(P.ScaledSigmoidParameter(shape, vmin=0.1, vmax=2.0), _tensor(shape))
    if kind == "clamp":
        return P.Parameter.from_unary(P.ClampParameter(shape, vmin=0.05), _tensor(shape))
    if kind == "dirichlet":
        return P.Parameter.from_input(_tensor(shape, DirichletInitializer()))
    if kind in ("const_pos", "const"):
        r = np.random.default_rng(rng.getrandbits(32))
        v = r.uniform(0.1, 1.5, size=shape) if kind == "const_pos" else r.normal(size=shape)
        return P.Parameter.from_input(P.ConstantParameter(*shape, value=v))
    if kind == "hadamard2":
        return P.Parameter.from_binary(P.HadamardParameter(shape, shape), _tensor(shape), _tensor(shape))
    if kind == "sum2":
        return P.Parameter.from_binary(P.SumParameter(shape, shape), _tensor(shape), _tensor(shape))
    raise ValueError(kind)


def mixing_param(rng: random.Random, shape, mono: bool) -> P.Parameter:
    def inner(s):
        if mono or rng.random() < 0.6:
            return P.Parameter.from_unary(P.SoftmaxParameter(s, axis=1), _tensor(s))
        return P.Parameter.from_input(_tensor(s))

    return P.mixing_weight_factory(shape, param_factory=inner)


# ------------------------------------------------------------------------------------------
# circuit generator
# ------------------------------------------------------------------------------------------
DISCRETE_KINDS = ["cat", "binomial", "embedding"]
CONT_KINDS = ["gaussian", "gaussian_lp", "poly"]


@dataclass
class GenCfg:
    nvars: int = 3
    id_mode: str = "contiguous"  # contiguous | sparse | random
    kinds: tuple = ("cat", "binomial", "embedding", "gaussian", "gaussian_lp", "poly")
    max_units: int = 3
    prod_kinds: tuple = ("hadamard", "kronecker")
    max_parts: int = 3
    multi_part_prob: float = 0.3
    structured: bool = False
    max_reps: int = 2  # product layers per partitioning feeding one sum (sum arity)
    outputs: int = 1
    out_units: int = 1
    share_prob: float = 0.3
    interior_output: bool = False
    sub_output: bool = False
    monotonic: bool = False
    complex: bool = False
    const_factor_prob: float = 0.0
    mixing_prob: float = 0.25
    leaf_sum_prob: float = 0.3
    kron_max_units: int = 2  # input units of binary Kronecker layers (K**2 outputs)
    twohead_prob: float = 0.12  # two sum layers over the same product layers
    shuffle_inputs_prob: float = 0.3  # product layers list their inputs in a random order
    leaf_mix_prob: float = 0.4  # a leaf sum layer mixes several input layers of its variable
    skip_sum_prob: float = 0.2
    defect: str = "none"  # none | nonsmooth | nondecomp
    weight_kinds: tuple | None = None
    same_kind_all_vars: bool = False
    cat_modes: tuple = ("probs_softmax", "probs_raw", "logits", "logits_lsm")


class CircuitBuilder:
    def __init__(self, rng: random.Random, cfg: GenCfg):
        self.rng = rng
        self.cfg = cfg
        self.layers: list = []
        self.in_layers: dict = {}
        self.cache: dict = {}
        self.var_kind: dict[int, tuple] = {}
        self.notes: list[str] = []
        # shared structural decisions (per region scope) for type-aligned compatible circuits:
        # the layer *types* met along the vtree must agree for the layer product rules to apply
        self.align: dict | None = None

    def _decide(self, scope, what, fn):
        if self.align is None:
            return fn()
        key = (tuple(scope), what)
        if key not in self.align:
            self.align[key] = fn()
        return self.align[key]

    # -- per-variable input description -------------------------------------------------
    def _var_spec(self, v: int):
        if v not in self.var_kind:
            rng, cfg = self.rng, self.cfg
            if cfg.same_kind_all_vars and self.var_kind:
                kind = next(iter(self.var_kind.values()))[0]
            else:
                kind = rng.choice(cfg.kinds)
            if kind == "cat":
                spec = (kind, rng.randint(2, 4))
            elif kind == "binomial":
                spec = (kind, rng.randint(1, 3))
            elif kind == "embedding":
                spec = (kind, rng.randint(2, 4))
            elif kind == "poly":
                spec = (kind, rng.randint(0, 3))
            else:
                spec = (kind, 0)
            self.var_kind[v] = spec
        return self.var_kind[v]

    def domain(self, v: int):
        kind, n = self._var_spec(v)
        if kind in ("cat", "embedding"):
            return ("disc", n)
        if kind == "binomial":
            return ("disc", n + 1)
        return ("cont", 0)

    def _add(self, layer, ins=()):
        self.layers.append(layer)
        if ins:
            self.in_layers[layer] = list(ins)
        return layer

    def _weight(self, shape, arity, k_in):
        rng, cfg = self.rng, self.cfg
        if cfg.complex:
            if rng.random() < 0.7:
                return P.Parameter.from_input(_tensor(shape, dtype=DataType.COMPLEX))
            return weight_param(rng, rng.choice(["raw", "softmax", "exp"]), shape)
        if shape[0] == k_in and rng.random() < cfg.mixing_prob:
            return mixing_param(rng, shape, cfg.monotonic)
        kinds = cfg.weight_kinds or (MONO_WEIGHT_KINDS if cfg.monotonic else ANY_WEIGHT_KINDS)
        return weight_param(rng, rng.choice(kinds), shape)

    def input_layer(self, v: int, k: int):
        rng, cfg = self.rng, self.cfg
        kind, n = self._var_spec(v)
        sc = Scope([v])
        if kind == "cat":
            mode = rng.choice(cfg.cat_modes)
            shape = (k, n)
            if mode == "probs_softmax":
                return self._add(L.CategoricalLayer(sc, k, num_categories=n))
            if mode == "probs_raw":
                p = P.Parameter.from_input(_tensor(shape, DirichletInitializer()))
                return self._add(L.CategoricalLayer(sc, k, num_categories=n, probs=p))
            if mode == "logits":
                p = P.Parameter.from_input(_tensor(shape))
                return self._add(L.CategoricalLayer(sc, k, num_categories=n, logits=p))
            p = P.Parameter.from_unary(P.LogSoftmaxParameter(shape), _tensor(shape))
            return self._add(L.CategoricalLayer(sc, k, num_categories=n, logits=p))
        if kind == "binomial":
            mode = rng.choice(["probs", "logits"])
            if mode == "probs":
                return self._add(L.BinomialLayer(sc, k, total_count=n))
            p = P.Parameter.from_input(_tensor((k,)))
            return self._add(L.BinomialLayer(sc, k, total_count=n, logits=p))
        if kind == "embedding":
            shape = (k, n)
            if cfg.complex:
                w = P.Parameter.from_input(_tensor(shape, dtype=DataType.COMPLEX))
            elif cfg.monotonic:
                w = weight_param(rng, rng.choice(["exp", "softplus", "softmax", "square"]), shape)
            else:
                w = weight_param(rng, rng.choice(["raw", "raw", "exp", "hadamard2"]), shape)
            return self._add(L.EmbeddingLayer(sc, k, num_states=n, weight=w))
        if kind == "gaussian":
            if rng.random() < 0.5:
                return self._add(L.GaussianLayer(sc, k))
            sd = P.Parameter.from_input(_tensor((k,), UniformInitializer(0.4, 1.6)))
            return self._add(L.GaussianLayer(sc, k, stddev=sd))
        if kind == "gaussian_lp":
            sd = P.Parameter.from_input(_tensor((k,), UniformInitializer(0.4, 1.6)))
            lp = P.Parameter.from_input(_tensor((k,), NormalInitializer(0.0, 0.5)))
            return self._add(L.GaussianLayer(sc, k, stddev=sd, log_partition=lp))
        if kind == "poly":
            shape = (k, n + 1)
            dt = DataType.COMPLEX if cfg.complex else DataType.REAL
            c = P.Parameter.from_input(_tensor(shape, dtype=dt))
            return self._add(L.PolynomialLayer(sc, k, degree=n, coeff=c))
        raise ValueError(kind)

    def const_layer(self, k: int):
        rng = self.rng
        log_space = rng.random() < 0.5
        if log_space:
            v = P.Parameter.from_input(_tensor((k,), NormalInitializer(0.0, 0.5)))
        elif self.cfg.monotonic:
            v = P.Parameter.from_unary(P.ExpParameter((k,)), _tensor((k,), NormalInitializer(0.0, 0.5)))
        else:
            v = P.Parameter.from_input(_tensor((k,)))
        return self._add(L.ConstantValueLayer(k, log_space=log_space, value=v))

    # -- recursive construction -----------------------------------------------------------
    def get(self, reg: Region, k: int):
        key = (id(reg), k)
        if key in self.cache and self.rng.random() < self.cfg.share_prob:
            self.notes.append("shared")
            return self.cache[key]
        layer = self.build(reg, k)
        self.cache[key] = layer
        return layer

    def build(self, reg: Region, k: int):
        rng, cfg = self.rng, self.cfg
        if not reg.parts:
            (v,) = reg.scope
            if self._decide(reg.scope, "leaf_sum", lambda: rng.random() < cfg.leaf_sum_prob):
                k0 = rng.randint(1, cfg.max_units)
                # a mixture of 1..max_reps input layers of the same variable
                a = rng.randint(1, cfg.max_reps) if rng.random() < cfg.leaf_mix_prob else 1
                ils = [self.input_layer(v, k0) for _ in range(a)]
                return self._add(
                    L.SumLayer(k0, k, arity=a, weight=self._weight((k, a * k0), a, k0)), ils
                )
            return self.input_layer(v, k)
        kind = self._decide(reg.scope, "prod_kind", lambda: rng.choice(cfg.prod_kinds))
        max_arity = max(len(p) for p in reg.parts)
        if kind == "kronecker":
            kc = 1 if max_arity >= 3 and rng.random() < 0.5 else rng.randint(1, cfg.kron_max_units if max_arity <= 2 else 2)
            if kc**max_arity > 9:
                kc = 1
        else:
            kc = rng.randint(1, cfg.max_units)
        reps = rng.randint(1, cfg.max_reps)
        prods = []
        prod_units = None
        for part in reg.parts:
            if kind == "kronecker" and len(part) != max_arity:
                # kronecker unit counts depend on the arity: keep one arity per region
                continue
            for _ in range(reps):
                children = [self.get(c, kc) for c in part]
                if len(children) >= 2 and rng.random() < cfg.shuffle_inputs_prob:
                    rng.shuffle(children)  # the order in which a product lists its inputs is arbitrary
                if cfg.const_factor_prob and rng.random() < cfg.const_factor_prob:
                    children.append(self.const_layer(kc))
                    self.notes.append("const-factor")
                if kind == "hadamard":
                    pl = L.HadamardLayer(kc, arity=len(children))
                else:
                    if kc ** len(children) > 16:
                        children = children[: len(part)]
                    pl = L.KroneckerLayer(kc, arity=len(children))
                if prod_units is None:
                    prod_units = pl.num_output_units
                elif pl.num_output_units != prod_units:
                    continue
                self._add(pl, children)
                prods.append(pl)
        if self.align is None and len(prods) == 1 and prod_units == k and rng.random() < cfg.skip_sum_prob:
            return prods[0]
        w = self._weight((k, len(prods) * prod_units), len(prods), prod_units)
        head = self._add(L.SumLayer(prod_units, k, arity=len(prods), weight=w), prods)
        if self.align is None and cfg.twohead_prob and rng.random() < cfg.twohead_prob:
            # a second head over the very same product layers (each product now has two consumers),
            # both heads mixed by a sum of arity 2: still smooth and decomposable
            w2 = self._weight((k, len(prods) * prod_units), len(prods), prod_units)
            head2 = self._add(L.SumLayer(prod_units, k, arity=len(prods), weight=w2), prods)
            self.notes.append("two-heads")
            wm = self._weight((k, 2 * k), 2, k)
            return self._add(L.SumLayer(k, k, arity=2, weight=wm), [head, head2])
        return head

    def finish(self, outputs):
        return Circuit(self.layers, self.in_layers, outputs)


def gen_circuit(rng: random.Random, cfg: GenCfg):
    """Returns (circuit, meta).  meta: var ids, domains, region description, notes."""
    ids = choose_var_ids(rng, cfg.nvars, cfg.id_mode)
    memo = {} if cfg.structured else None
    reg = gen_region(
        rng,
        ids,
        max_parts=cfg.max_parts,
        multi_part_prob=0.0 if cfg.structured else cfg.multi_part_prob,
        memo=memo,
    )
    b = CircuitBuilder(rng, cfg)
    outs = [] if cfg.defect != "none" and len(ids) >= 2 else [b.get(reg, cfg.out_units) for _ in range(cfg.outputs)]
    # the same layer object may not be listed twice as output in a sensible circuit: dedupe
    outs = list(dict.fromkeys(outs))
    if cfg.interior_output and outs:
        o = outs[0]
        k = cfg.out_units
        top = b._add(L.SumLayer(k, k, arity=1, weight=b._weight((k, k), 1, k)), [o])
        outs = outs + [top] if rng.random() < 0.5 else [top] + outs
        b.notes.append("interior-output")
    if cfg.sub_output and reg.parts and outs:
        child = rng.choice(reg.parts[0])
        outs.append(b.get(child, cfg.out_units))
        b.notes.append("sub-output")
    if cfg.defect == "nonsmooth" and len(ids) >= 2:
        # a sum over two layers with different scopes
        k = cfg.out_units
        a = b.get(gen_region(rng, ids[:1]), k)
        c = b.get(gen_region(rng, ids[1:2]), k)
        s = b._add(L.SumLayer(k, k, arity=2, weight=b._weight((k, 2 * k), 2, k)), [a, c])
        if len(ids) > 2:
            rest = b.get(gen_region(rng, ids[2:]), k)
            s = b._add(L.HadamardLayer(k, arity=2), [s, rest])
        outs = [s]
        b.notes.append("defect:nonsmooth")
    if cfg.defect == "nonsmooth-const" and len(ids) >= 1:
        # a sum mixing a constant (empty-scope) layer with a layer over some variables
        k = cfg.out_units
        a = b.get(gen_region(rng, ids[:1]), k)
        s = b._add(L.SumLayer(k, k, arity=2, weight=b._weight((k, 2 * k), 2, k)), [a, b.const_layer(k)] if rng.random() < 0.5 else [b.const_layer(k), a])
        if len(ids) > 1:
            rest = b.get(gen_region(rng, ids[1:]), k)
            s = b._add(L.HadamardLayer(k, arity=2), [s, rest])
        outs = [s]
        b.notes.append("defect:nonsmooth-const")
    if cfg.defect == "nondecomp3" and len(ids) >= 3:
        # a product of three layers whose first and last inputs overlap (adjacent ones are disjoint)
        k = cfg.out_units
        a = b.get(gen_region(rng, ids[:2]), k)
        m = b.get(gen_region(rng, ids[2:3]), k)
        c = b.get(gen_region(rng, ids[1:2] + ids[3:]), k)
        order = [a, m, c] if rng.random() < 0.7 else [c, m, a]
        s = b._add(L.HadamardLayer(k, arity=3), order)
        outs = [s]
        b.notes.append("defect:nondecomp3")
    if cfg.defect == "nondecomp" and len(ids) >= 2:
        k = cfg.out_units
        a = b.get(gen_region(rng, ids[:2]), k)
        c = b.get(gen_region(rng, ids[1:]), k)
        s = b._add(L.HadamardLayer(k, arity=2), [a, c])
        outs = [s]
        b.notes.append("defect:nondecomp")
    sc = b.finish(outs)
    # make sure every variable has a spec (defect circuits may skip some)
    meta = {
        "ids": ids,
        "domains": {v: b.domain(v) for v in sorted(sc.scope)},
        "region": reg.describe(),
        "notes": sorted(set(b.notes)),
        "cfg": {k: (list(v) if isinstance(v, tuple) else v) for k, v in asdict(cfg).items()},
    }
    return sc, meta


def gen_compatible_pair(rng: random.Random, cfg1: GenCfg, cfg2: GenCfg | None = None, *, n: int = 2):
    """n circuits over the same variables built from the same vtree (one partitioning per scope),
    with independent unit counts, sum arities and input parameterisations.  The per-variable input
    family (kind and domain size) is shared so that layer product rules apply."""
    cfg2 = cfg2 or cfg1
    ids = choose_var_ids(rng, cfg1.nvars, cfg1.id_mode)
    reg = gen_region(rng, ids, max_parts=cfg1.max_parts, multi_part_prob=0.0, memo={})
    circuits, var_kind, metas = [], None, []
    align: dict = {}
    for i in range(n):
        cfg = cfg1 if i == 0 else cfg2
        b = CircuitBuilder(rng, cfg)
        b.align = align
        if var_kind is not None:
            b.var_kind = dict(var_kind)
        outs = list(dict.fromkeys(b.get(reg, cfg.out_units) for _ in range(cfg.outputs)))
        sc = b.finish(outs)
        var_kind = dict(b.var_kind)
        circuits.append(sc)
        metas.append(b)
    meta = {
        "ids": ids,
        "domains": {v: metas[0].domain(v) for v in sorted(circuits[0].scope)},
        "region": reg.describe(),
        "notes": sorted(set(itertools.chain.from_iterable(m.notes for m in metas))),
    }
    return circuits, meta


def gen_twin_pair(rng: random.Random, cfg: GenCfg, *, n: int = 2):
    """n circuits with the *same architecture* (layer types, unit counts, parameterisations) and
    independent parameter tensors: the generator is replayed from one seed.  This is the everyday
    product "two models of one architecture"; every layer pair has equal shapes, so a rule that reads
    the wrong operand's tensor stays silent instead of failing on a shape."""
    seed = rng.getrandbits(64)
    out, meta = [], None
    for _ in range(n):
        sc, meta = gen_circuit(random.Random(seed), cfg)
        out.append(sc)
    return out, meta


# ------------------------------------------------------------------------------------------
# inputs
# ------------------------------------------------------------------------------------------
GARBAGE_DISC = 97  # placed in columns the circuit must never read


def num_columns(domains: dict) -> int:
    return (max(domains) + 1) if domains else 0


def all_assignments(domains: dict, limit: int = 4096):
    """All complete assignments of a purely discrete circuit, or None."""
    if any(d[0] != "disc" for d in domains.values()):
        return None
    total = 1
    for d in domains.values():
        total *= d[1]
    if total > limit or not domains:
        return None
    vs = sorted(domains)
    X = np.full((total, num_columns(domains)), GARBAGE_DISC, dtype=np.int64)
    for r, combo in enumerate(itertools.product(*[range(domains[v][1]) for v in vs])):
        for v, val in zip(vs, combo):
            X[r, v] = val
    return X


def random_inputs(nrng: np.random.Generator, domains: dict, B: int, *, dtype=None) -> np.ndarray:
    ncols = num_columns(domains)
    cont = any(d[0] == "cont" for d in domains.values())
    if cont:
        X = np.full((B, ncols), 1.0e3, dtype=np.float64)  # garbage in unused columns
    else:
        X = np.full((B, ncols), GARBAGE_DISC, dtype=np.int64)
    for v, d in domains.items():
        if d[0] == "disc":
            X[:, v] = nrng.integers(0, d[1], size=B)
        else:
            x = nrng.normal(size=B) * 1.5
            # a few edge points
            if B >= 4:
                x[0] = 0.0
                x[1] = -2.5
            X[:, v] = x
    return X


def batch_sizes(fold_counts, extra=(1, 2, 5)) -> list[int]:
    bs = set(extra)
    for f in fold_counts:
        if f > 1:
            bs.update({f - 1, f, f + 1})
    return sorted(b for b in bs if b >= 1)
