"""Driver: plan cases, shard over worker subprocesses, classify, write evidence, print verdict.

Exit status: 0 held on everything explored; 1 violation (not listed in known_findings.json);
2 inconclusive (coverage floor missed, worker died, watchdog fired, harness error).
"""
from __future__ import annotations

import argparse
import collections
import importlib
import json
import os
import shutil
import subprocess
import sys
import time

HERE = os.path.dirname(os.path.dirname(os.path.abspath(__file__)))
# development runs against scratch copies (tools/seedrun.py) write elsewhere, so the evidence of the real tree is kept
OUT = os.environ.get("VERIF_OUT") or HERE
FINDINGS_FILE = os.path.join(HERE, "known_findings.json")


def load_findings():
    if not os.path.exists(FINDINGS_FILE):
        return []
    return json.load(open(FINDINGS_FILE)).get("findings", [])


def classify(prop: str, violation: dict, features: set, findings: list):
    """Return the key of the open known finding matching this violation, or None.
    A finding matches on (property, failure class, all required features, optional substring of
    the `where` call site / detail).  Fixed entries never match."""
    for f in findings:
        if f.get("status") != "open" or prop not in ([f.get("property")] + list(f.get("also_properties", []))):
            continue
        if f.get("vclass") and f["vclass"] != violation.get("vclass"):
            continue
        if f.get("vclass_prefix") and not str(violation.get("vclass", "")).startswith(f["vclass_prefix"]):
            continue
        if not set(f.get("features_all", [])) <= features:
            continue
        if f.get("features_none") and set(f["features_none"]) & features:
            continue
        if f.get("where") and f["where"] not in str(violation.get("where", "")) + str(violation.get("detail", "")):
            continue
        return f["key"]
    return None


def main(argv=None):
    ap = argparse.ArgumentParser()
    ap.add_argument("prop")
    ap.add_argument("--tier", default=os.environ.get("VERIF_TIER", "quick"), choices=["quick", "thorough"])
    ap.add_argument("--replay", default=None)
    ap.add_argument("--workers", type=int, default=int(os.environ.get("VERIF_WORKERS", "0")) or min(16, os.cpu_count() or 4))
    ap.add_argument("--limit", type=int, default=0, help="debug: only the first N planned cases")
    ap.add_argument("--inproc", action="store_true", help="debug: run in this process")
    ap.add_argument("--filter", default="", help="debug: only cases whose JSON descriptor contains this substring")
    args = ap.parse_args(argv)
    prop = args.prop.upper()
    seed = int(os.environ.get("VERIF_SEED", "0"))
    t0 = time.time()

    mod = importlib.import_module(f"vf.props.{prop.lower()}")

    if args.replay:
        from vf import worker

        worker.setup_runtime()
        rep = json.load(open(args.replay))
        rec = worker.run_one(mod, rep["case"], 600)
        print(json.dumps({k: rec[k] for k in ("status", "violations", "features", "note")}, indent=1, default=str))
        if rec["status"] == "violation":
            findings = load_findings()
            feats = set(rec.get("features") or [])
            keys = [classify(prop, v, feats, findings) for v in rec["violations"]]
            for k in sorted({k for k in keys if k}):
                print(f"KNOWN-FINDING: property={prop} {k}")
            if all(keys):
                return 0
            print(f"VIOLATION property={prop} replay={args.replay}")
            return 1
        return 0 if rec["status"] in ("ok", "refused", "skip") else 2

    cases = mod.plan(args.tier, seed)
    if args.filter:
        cases = [c for c in cases if args.filter in json.dumps(c)]
    if args.limit:
        cases = cases[: args.limit]
    for i, c in enumerate(cases):
        c.setdefault("idx", i)

    workdir = os.path.join(OUT, "replays", ".work", f"{prop}-{os.getpid()}")
    os.makedirs(workdir, exist_ok=True)
    records = []
    dead = []
    case_timeout = 300 if args.tier == "quick" else 900
    shard_timeout = getattr(mod, "SHARD_TIMEOUT", {"quick": 1500, "thorough": 7200})[args.tier]
    try:
        if args.inproc:
            from vf import worker

            worker.setup_runtime()
            for c in cases:
                records.append(worker.run_one(mod, c, case_timeout))
        else:
            nw = max(1, min(args.workers, len(cases)))
            shards = [cases[i::nw] for i in range(nw)]
            procs = []
            env = dict(os.environ)
            env.setdefault("PYTHONHASHSEED", "0")
            env["OMP_NUM_THREADS"] = "1"
            env["MKL_NUM_THREADS"] = "1"
            for i, sh in enumerate(shards):
                fin = os.path.join(workdir, f"in{i}.json")
                fout = os.path.join(workdir, f"out{i}.jsonl")
                json.dump(sh, open(fin, "w"))
                p = subprocess.Popen(
                    [sys.executable, "-m", "vf.worker", prop, fin, fout, str(case_timeout)],
                    env=env, cwd=HERE, stdout=subprocess.PIPE, stderr=subprocess.STDOUT,
                )
                procs.append((p, fout, len(sh)))
            deadline = time.time() + shard_timeout
            for i, (p, fout, n) in enumerate(procs):
                try:
                    outtxt, _ = p.communicate(timeout=max(1, deadline - time.time()))
                except subprocess.TimeoutExpired:
                    p.kill()
                    outtxt, _ = p.communicate()
                    dead.append(f"shard {i}: watchdog ({shard_timeout}s) fired")
                done = False
                if os.path.exists(fout):
                    for line in open(fout):
                        r = json.loads(line)
                        if r.get("shard_done"):
                            done = True
                        else:
                            records.append(r)
                if not done and not any(d.startswith(f"shard {i}:") for d in dead):
                    dead.append(f"shard {i}: worker exited {p.returncode} before finishing: {outtxt.decode(errors='replace')[-800:]}")
    finally:
        shutil.rmtree(workdir, ignore_errors=True)

    return report(mod, prop, args.tier, seed, cases, records, dead, time.time() - t0)


def report(mod, prop, tier, seed, cases, records, dead, wall):
    findings = load_findings()
    feat_hist = collections.Counter()
    obs = collections.Counter()
    mon = collections.Counter()
    status = collections.Counter()
    sigs = set()
    known = collections.Counter()
    new_violations = []
    errors = []
    for r in records:
        status[r["status"]] += 1
        feats = set(r.get("features", []))
        for f in feats:
            feat_hist[f] += 1
        for k, v in r.get("obs", {}).items():
            obs[k] += v
        for k, v in r.get("mon", {}).items():
            mon[k] += v
        if r.get("nontrivial") and r.get("sig") and r["status"] in ("ok", "violation", "refused"):
            sigs.add(r["sig"])
        if r["status"] == "error":
            errors.append(r)
        if r["status"] == "violation":
            unlisted = []
            for v in r["violations"]:
                key = classify(prop, v, feats, findings)
                if key:
                    known[key] += 1
                else:
                    unlisted.append(v)
            if unlisted:
                new_violations.append((r, unlisted))

    # replay files for unlisted violations
    rdir = os.path.join(OUT, "replays", prop)
    os.makedirs(rdir, exist_ok=True)
    lines = []
    for r, vs in new_violations[:50]:
        from vf.common import short_hash

        path = os.path.join(rdir, f"{short_hash(r['case'])}.json")
        json.dump({"property": prop, "case": r["case"], "violations": vs, "features": r.get("features"), "note": r.get("note", "")}, open(path, "w"), indent=1, default=str)
        lines.append((path, vs[0]))

    floor = getattr(mod, "FLOOR", {})
    missed = {k: (feat_hist.get(k, 0) + obs.get(k, 0), n) for k, n in floor.items() if feat_hist.get(k, 0) + obs.get(k, 0) < n}
    inconclusive = []
    if dead:
        inconclusive += dead
    if errors:
        inconclusive.append(f"{len(errors)} harness errors, first: {errors[0].get('note', '')[-600:]}")
    if status.get("timeout"):
        inconclusive.append(f"{status['timeout']} cases hit the case watchdog")
    if missed:
        inconclusive.append(f"coverage floor missed: {missed}")
    if len(records) < len(cases) and not dead:
        inconclusive.append(f"only {len(records)} of {len(cases)} planned cases reported")

    samples = []
    for r in records[:: max(1, len(records) // 5)][:5]:
        samples.append({"case": r["case"], "status": r["status"], "features": r.get("features", [])[:25], "obs": r.get("obs", {})})
    if not samples:
        samples = [{"note": "no case executed"}]
    evidence = {
        "property_id": prop,
        "tier": tier,
        "seed": seed,
        "level": "exploration",
        "coverage": {
            "evaluations": max(1, len(records)),
            "distinct_nontrivial": len(sigs),
            "rule": getattr(mod, "RULE", ""),
            "samples": samples,
            "exhaustive": False,
            "exhaustive_subspaces": getattr(mod, "EXHAUSTIVE_SUBSPACES", []),
            "case_status": dict(status),
            "oracle_checks_observed": dict(obs),
            "monitor_events_observed": dict(mon),
            "feature_histogram": dict(feat_hist.most_common(80)),
            "coverage_floor": floor,
            "known_findings_matched": dict(known),
            "unlisted_violations": len(new_violations),
            "inconclusive_reasons": inconclusive,
            "verdict": "violated" if new_violations else ("inconclusive" if inconclusive else "held-on-observed"),
        },
        "assumptions": getattr(mod, "ASSUMPTIONS", []),
        "wall_s": round(wall, 2),
        "violations": len(new_violations),
    }
    os.makedirs(os.path.join(OUT, "evidence"), exist_ok=True)
    json.dump(evidence, open(os.path.join(OUT, "evidence", f"{prop}.json"), "w"), indent=1, default=str)

    print(f"[{prop}] tier={tier} seed={seed} cases={len(records)}/{len(cases)} status={dict(status)} distinct={len(sigs)} wall={wall:.1f}s")
    print(f"[{prop}] observed: {dict(obs)}")
    print(f"[{prop}] monitors: {dict(mon)}")
    for f in findings:
        if f.get("status") == "open" and prop in ([f.get("property")] + list(f.get("also_properties", []))) and known.get(f["key"]):
            print(f"KNOWN-FINDING: property={prop} {f['key']}: {f['what']} ({known[f['key']]} cases)")
    for path, v in lines:
        print(f"VIOLATION property={prop} replay={path}  # {v['vclass']}: {v['detail'][:200]}")
    if new_violations:
        return 1
    if inconclusive:
        for why in inconclusive:
            print(f"INCONCLUSIVE property={prop} reason={why}")
        return 2
    return 0


if __name__ == "__main__":
    sys.exit(main())
