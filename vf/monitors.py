"""Always-on invariant hooks, installed in every worker.

* layer-shape invariant at every TorchLayer.forward return:
      output is a tensor of shape (num_folds, B, num_output_units)
  where B is the batch size of the circuit-level evaluation (for layers evaluated at top level)
* parameter-node shape invariant at every TorchParameterNode.forward return:
      (num_folds, *node.shape)
* counters of what the hooks observed (evidence must show the monitors really ran)

The hooks use torch's own global hook API, nothing in the repository is edited.
"""
from __future__ import annotations

import collections
import threading

import torch
from torch.nn.modules import module as _tm

from cirkit.backend.torch.circuits import TorchCircuit
from cirkit.backend.torch.graph.modules import TorchDiAcyclicGraph
from cirkit.backend.torch.layers.base import TorchLayer
from cirkit.backend.torch.parameters.nodes import TorchParameterNode


class MonitorViolation(Exception):
    def __init__(self, vclass: str, detail: str):
        super().__init__(f"{vclass}: {detail}")
        self.vclass = vclass
        self.detail = detail


COUNTS: collections.Counter = collections.Counter()
_state = threading.local()
_installed = False
ENABLED = True


def _st():
    if not hasattr(_state, "depth"):
        _state.depth = 0
        _state.batch = []
    return _state


def _pre_hook(module, args):
    if isinstance(module, TorchLayer):
        _st().depth += 1
    return None


def _post_hook(module, args, output):
    if isinstance(module, TorchLayer):
        st = _st()
        st.depth -= 1
        if not ENABLED:
            return None
        COUNTS["layer_forward"] += 1
        if not isinstance(output, torch.Tensor) or output.dim() != 3:
            raise MonitorViolation(
                "layer-shape-invariant",
                f"{type(module).__name__} returned {getattr(output, 'shape', type(output))}, expected a 3-d tensor",
            )
        f, b, k = output.shape
        exp_b = st.batch[-1] if (st.batch and st.depth == 0) else None
        if f != module.num_folds or k != module.num_output_units or (exp_b is not None and b != exp_b):
            raise MonitorViolation(
                "layer-shape-invariant",
                f"{type(module).__name__} returned {tuple(output.shape)}, expected "
                f"({module.num_folds}, {exp_b if exp_b is not None else 'B'}, {module.num_output_units})",
            )
    elif isinstance(module, TorchParameterNode):
        if not ENABLED:
            return None
        COUNTS["param_node_forward"] += 1
        exp = (module.num_folds, *module.shape)
        if not isinstance(output, torch.Tensor) or tuple(output.shape) != exp:
            raise MonitorViolation(
                "param-node-shape-invariant",
                f"{type(module).__name__} returned {tuple(getattr(output, 'shape', ()))}, expected {exp}",
            )
    return None


def install() -> None:
    global _installed
    if _installed:
        return
    _installed = True
    _tm.register_module_forward_pre_hook(_pre_hook)
    _tm.register_module_forward_hook(_post_hook)

    orig_eval = TorchDiAcyclicGraph.evaluate

    def evaluate(self, x=None, module_fn=None):
        if isinstance(self, TorchCircuit):
            st = _st()
            # batch size of this circuit-level evaluation; None when module_fn replaces forward
            # with something that is not a batch evaluation (sampling)
            if x is not None:
                b = x.shape[0]
            elif module_fn is None:
                b = 1
            else:
                b = None
            st.batch.append(b)
            saved_depth = st.depth
            st.depth = 0
            COUNTS["circuit_evaluate"] += 1
            try:
                return orig_eval(self, x, module_fn)
            finally:
                st.batch.pop()
                st.depth = saved_depth
        return orig_eval(self, x, module_fn)

    TorchDiAcyclicGraph.evaluate = evaluate


def snapshot() -> dict:
    return dict(COUNTS)
