"""Typed random generator of symbolic parameter graphs (shape-driven), used by C14 / C17."""
from __future__ import annotations

import random

import numpy as np

from cirkit.symbolic.dtypes import DataType
from cirkit.symbolic.initializers import NormalInitializer, UniformInitializer
from cirkit.symbolic import parameters as P


def _divisor_pairs(n: int):
    return [(a, n // a) for a in range(1, n + 1) if n % a == 0]


class ParamGen:
    """build(shape, depth, positive) -> Parameter whose value is defined (finite) under the
    initial valuation; `positive` demands a strictly positive tensor (for Log / stddev inputs)."""

    def __init__(self, rng: random.Random, *, complex_: bool = False, allow: set | None = None, index_rng: random.Random | None = None):
        self.rng = rng
        # index lists may be drawn from a separate stream so that structurally identical copies of a
        # graph (same shapes, axes, lengths) carry *different* indices
        self.index_rng = index_rng
        self.complex = complex_
        self.allow = allow
        self.kinds_used: set[str] = set()

    def _cfg(self, fn):
        """A configuration value (axis of a same-shape operator, bounds, constants): drawn from the
        main stream, and -- when structurally identical copies must differ in configuration only --
        re-drawn from the separate stream (the main stream advances identically either way)."""
        v = fn(self.rng)
        if self.index_rng is not None:
            v = fn(self.index_rng)
        return v

    @staticmethod
    def _dag(sub_params, new_nodes, wiring, output):
        """A parameter graph in which `new_nodes` are wired (wiring: node -> list of inputs, an input is
        a node or the output node of one of `sub_params`) on top of the given sub-graphs; a node may be
        listed as input of several nodes (shared)."""
        nodes, in_nodes = [], {}
        for sp in sub_params:
            for n in sp.nodes:
                if n not in in_nodes and n not in nodes:
                    nodes.append(n)
                ins = list(sp.node_inputs(n))
                if ins:
                    in_nodes[n] = ins
        nodes += new_nodes
        in_nodes.update(wiring)
        return P.Parameter(nodes, in_nodes, [output])

    # leaves
    def leaf(self, shape, positive):
        rng = self.rng
        if self.complex and not positive:
            return P.Parameter.from_input(P.TensorParameter(*shape, initializer=NormalInitializer(), dtype=DataType.COMPLEX))
        if positive:
            return P.Parameter.from_input(P.TensorParameter(*shape, initializer=UniformInitializer(0.3, 2.0)))
        if rng.random() < 0.2:
            v = np.random.default_rng(self._cfg(lambda r: r.getrandbits(32))).normal(size=shape)
            self.kinds_used.add("ConstantParameter")
            return P.Parameter.from_input(P.ConstantParameter(*shape, value=v))
        return P.Parameter.from_input(P.TensorParameter(*shape, initializer=NormalInitializer()))

    def build(self, shape, depth: int, positive: bool = False) -> P.Parameter:
        rng = self.rng
        shape = tuple(shape)
        if depth <= 0:
            return self.leaf(shape, positive)
        ops = self._candidates(shape, positive)
        if self.allow is not None:
            ops = [o for o in ops if o in self.allow] or ops
        rng.shuffle(ops)
        for op in ops:
            p = self._make(op, shape, depth, positive)
            if p is not None:
                self.kinds_used.add(type(p.output).__name__)
                return p
        return self.leaf(shape, positive)

    def _candidates(self, shape, positive):
        r = len(shape)
        c = ["sum", "hadamard", "kronecker", "outer_product", "index", "reduce_sum", "reduce_prod", "reduce_sum_of_outer"]
        if not self.complex:
            c += ["exp", "softplus", "sigmoid", "scaled_sigmoid", "clamp", "softmax"]
            if r == 1:
                c += ["gp_stddev"]
        c += ["shared_outer_reduce"]
        if not positive:
            c += ["square", "conjugate", "outer_sum"]
            if not self.complex:
                c += ["log", "logsoftmax", "reduce_lse", "log_of_softmax", "shared_softmax"]
                if r == 1:
                    c += ["gp_mean", "gp_logpartition"]
            if r == 2:
                c += ["poly_product", "poly_diff"]
                if shape[1] % shape[0] == 0:
                    c += ["mixing"]
        else:
            if self.complex:
                c = []  # positive complex makes no sense; leaf handles it as real positive
        return c

    def _make(self, op, shape, depth, positive):
        rng = self.rng
        r = len(shape)
        sub = lambda s, pos=positive: self.build(s, depth - 1, pos)
        ax = rng.randrange(r)
        ax_arg = ax if rng.random() < 0.5 else ax - r  # positive and negative axis spellings
        if op == "sum":
            return P.Parameter.from_binary(P.SumParameter(shape, shape), sub(shape), sub(shape))
        if op == "hadamard":
            return P.Parameter.from_binary(P.HadamardParameter(shape, shape), sub(shape), sub(shape))
        if op == "kronecker":
            s1, s2 = [], []
            for d in shape:
                a, b = rng.choice(_divisor_pairs(d))
                s1.append(a)
                s2.append(b)
            return P.Parameter.from_binary(P.KroneckerParameter(tuple(s1), tuple(s2)), sub(tuple(s1)), sub(tuple(s2)))
        if op in ("outer_product", "outer_sum"):
            a, b = rng.choice(_divisor_pairs(shape[ax]))
            s1 = shape[:ax] + (a,) + shape[ax + 1 :]
            s2 = shape[:ax] + (b,) + shape[ax + 1 :]
            cls = P.OuterProductParameter if op == "outer_product" else P.OuterSumParameter
            return P.Parameter.from_binary(cls(s1, s2, axis=ax_arg), sub(s1), sub(s2))
        if op == "index":
            m = rng.randint(1, 4)
            s_in = shape[:ax] + (m,) + shape[ax + 1 :]
            idx = [(self.index_rng or rng).randrange(m) for _ in range(shape[ax])]
            if self.index_rng is not None:
                _ = [rng.randrange(m) for _ in range(shape[ax])]  # keep the main stream aligned
            return P.Parameter.from_unary(P.IndexParameter(s_in, indices=idx, axis=ax_arg), sub(s_in))
        if op in ("reduce_sum", "reduce_prod", "reduce_lse"):
            if r >= 3:
                return None
            pos_ax = rng.randrange(r + 1)
            m = rng.randint(1, 3)
            s_in = shape[:pos_ax] + (m,) + shape[pos_ax:]
            a = pos_ax if rng.random() < 0.5 else pos_ax - (r + 1)
            cls = {"reduce_sum": P.ReduceSumParameter, "reduce_prod": P.ReduceProductParameter, "reduce_lse": P.ReduceLSEParameter}[op]
            return P.Parameter.from_unary(cls(s_in, axis=a), sub(s_in))
        if op == "reduce_sum_of_outer":  # the composition the optimiser rewrites into an einsum (+ flatten)
            if r >= 3:
                return None
            pos_ax = rng.randrange(r + 1)
            m = rng.choice([1, 2, 3, 4, 6])
            s_mid = shape[:pos_ax] + (m,) + shape[pos_ax:]
            oax = pos_ax if rng.random() < 0.5 else rng.randrange(r + 1)
            a, b = rng.choice(_divisor_pairs(s_mid[oax]))
            s1 = s_mid[:oax] + (a,) + s_mid[oax + 1 :]
            s2 = s_mid[:oax] + (b,) + s_mid[oax + 1 :]
            neg1, neg2 = rng.random() < 0.5, rng.random() < 0.5
            outer = P.Parameter.from_binary(P.OuterProductParameter(s1, s2, axis=oax - (r + 1) if neg1 else oax), sub(s1), sub(s2))
            return P.Parameter.from_sequence(outer, P.ReduceSumParameter(s_mid, axis=pos_ax - (r + 1) if neg2 else pos_ax))
        if op == "shared_softmax":  # S * log(S): the Softmax node has two consumers (a DAG, not a tree)
            ax = self._cfg(lambda r_: r_.randrange(r))
            inner = sub(shape, False)
            sm, lg, hd = P.SoftmaxParameter(shape, axis=ax), P.LogParameter(shape), P.HadamardParameter(shape, shape)
            return self._dag([inner], [sm, lg, hd], {sm: [inner.output], lg: [sm], hd: [sm, lg]}, hd)
        if op == "shared_outer_reduce":  # sum_j O + prod_j O with one shared outer product O
            if r >= 3:
                return None
            pos_ax = rng.randrange(r + 1)
            m = rng.choice([1, 2, 3, 4])
            s_mid = shape[:pos_ax] + (m,) + shape[pos_ax:]
            oax = pos_ax if rng.random() < 0.5 else rng.randrange(r + 1)
            a, b = rng.choice(_divisor_pairs(s_mid[oax]))
            s1 = s_mid[:oax] + (a,) + s_mid[oax + 1 :]
            s2 = s_mid[:oax] + (b,) + s_mid[oax + 1 :]
            p1, p2 = sub(s1), sub(s2)
            outer = P.OuterProductParameter(s1, s2, axis=oax)
            rs, rp = P.ReduceSumParameter(s_mid, axis=pos_ax), P.ReduceProductParameter(s_mid, axis=pos_ax)
            top = P.SumParameter(shape, shape)
            return self._dag([p1, p2], [outer, rs, rp, top], {outer: [p1.output, p2.output], rs: [outer], rp: [outer], top: [rs, rp]}, top)
        if op == "exp":
            return P.Parameter.from_unary(P.ExpParameter(shape), sub(shape, False))
        if op == "log":
            return P.Parameter.from_unary(P.LogParameter(shape), sub(shape, True))
        if op == "square":
            return P.Parameter.from_unary(P.SquareParameter(shape), sub(shape))
        if op == "softplus":
            return P.Parameter.from_unary(P.SoftplusParameter(shape), sub(shape, False))
        if op == "sigmoid":
            return P.Parameter.from_unary(P.SigmoidParameter(shape), sub(shape, False))
        if op == "scaled_sigmoid":
            lo = self._cfg(lambda r_: round(r_.uniform(0.05, 0.5), 3))
            wd = self._cfg(lambda r_: round(r_.uniform(0.5, 2.0), 3))
            return P.Parameter.from_unary(P.ScaledSigmoidParameter(shape, vmin=lo, vmax=lo + wd), sub(shape, False))
        if op == "clamp":
            if positive:
                return P.Parameter.from_unary(P.ClampParameter(shape, vmin=0.1), sub(shape, False))
            choice = self._cfg(lambda r_: r_.randrange(3))
            kw = [dict(vmin=-0.3), dict(vmax=0.4), dict(vmin=-0.5, vmax=0.5)][choice]
            return P.Parameter.from_unary(P.ClampParameter(shape, **kw), sub(shape, False))
        if op == "conjugate":
            return P.Parameter.from_unary(P.ConjugateParameter(shape), sub(shape))
        if op in ("softmax", "log_of_softmax", "logsoftmax"):  # same-shape operators: the axis is pure configuration
            ax = self._cfg(lambda r_: r_.randrange(r))
            ax_arg = ax if self._cfg(lambda r_: r_.random()) < 0.5 else ax - r
        if op == "softmax":
            return P.Parameter.from_unary(P.SoftmaxParameter(shape, axis=ax_arg), sub(shape, False))
        if op == "log_of_softmax":  # the composition the optimiser rewrites into LogSoftmax
            return P.Parameter.from_sequence(sub(shape, False), P.SoftmaxParameter(shape, axis=ax_arg), P.LogParameter(shape))
        if op == "logsoftmax":
            return P.Parameter.from_unary(P.LogSoftmaxParameter(shape, axis=ax_arg), sub(shape, False))
        if op == "mixing":
            k, h = shape[0], shape[1] // shape[0]
            return P.Parameter.from_unary(P.MixingWeightParameter((k, h)), sub((k, h)))
        if op in ("gp_mean", "gp_logpartition", "gp_stddev"):
            a, b = rng.choice(_divisor_pairs(shape[0]))
            m1, m2 = self.build((a,), depth - 1, False), self.build((b,), depth - 1, False)
            s1, s2 = self.build((a,), depth - 1, True), self.build((b,), depth - 1, True)
            if op == "gp_stddev":
                return P.Parameter.from_binary(P.GaussianProductStddev((a,), (b,)), s1, s2)
            cls = P.GaussianProductMean if op == "gp_mean" else P.GaussianProductLogPartition
            return P.Parameter.from_nary(cls((a,), (a,), (b,), (b,)), m1, s1, m2, s2)
        if op == "poly_product":
            a, b = rng.choice(_divisor_pairs(shape[0]))
            d = shape[1] + 1
            d1 = rng.randint(1, d - 1)
            d2 = d - d1
            return P.Parameter.from_binary(P.PolynomialProduct((a, d1), (b, d2)), sub((a, d1)), sub((b, d2)))
        if op == "poly_diff":
            order = rng.randint(1, 3)
            if shape[1] == 1 and rng.random() < 0.5:
                d_in = rng.randint(1, order)  # degree too small: result is the zero polynomial
            else:
                d_in = shape[1] + order
            return P.Parameter.from_unary(P.PolynomialDifferential((shape[0], d_in), order=order), sub((shape[0], d_in)))
        return None


ALL_NODE_KINDS = [
    "TensorParameter", "ConstantParameter", "ReferenceParameter", "IndexParameter", "SumParameter", "HadamardParameter",
    "KroneckerParameter", "OuterProductParameter", "OuterSumParameter", "ExpParameter", "LogParameter", "SquareParameter",
    "SoftplusParameter", "SigmoidParameter", "ScaledSigmoidParameter", "ClampParameter", "ConjugateParameter",
    "ReduceSumParameter", "ReduceProductParameter", "ReduceLSEParameter", "SoftmaxParameter", "LogSoftmaxParameter",
    "MixingWeightParameter", "GaussianProductMean", "GaussianProductStddev", "GaussianProductLogPartition",
    "PolynomialProduct", "PolynomialDifferential",
]
OP_NAMES = [
    "sum", "hadamard", "kronecker", "outer_product", "outer_sum", "index", "reduce_sum", "reduce_prod", "reduce_lse",
    "exp", "log", "square", "softplus", "sigmoid", "scaled_sigmoid", "clamp", "conjugate", "softmax", "logsoftmax",
    "mixing", "gp_mean", "gp_stddev", "gp_logpartition", "poly_product", "poly_diff", "log_of_softmax", "reduce_sum_of_outer", "shared_softmax", "shared_outer_reduce",
]
