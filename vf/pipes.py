"""Operator pipelines (G-pipe): random well-typed terms over the symbolic operators."""
from __future__ import annotations

import random

import numpy as np

import cirkit.symbolic.functional as SF
from cirkit.utils.scope import Scope

from vf import gen, structs

INTEGRABLE = ("cat", "embedding", "gaussian", "gaussian_lp")
MULTIPLIABLE = ("cat", "embedding", "gaussian", "gaussian_lp", "poly")


def base_cfg(rng: random.Random, kinds, **over) -> gen.GenCfg:
    d = dict(
        nvars=rng.randint(1, 4),
        kinds=tuple(kinds),
        structured=True,
        max_reps=rng.choice([1, 1, 2]),
        out_units=rng.choice([1, 1, 2]),
        outputs=rng.choice([1, 1, 1, 2]),
        share_prob=0.2,
        max_units=3,
        id_mode=rng.choice(["contiguous", "contiguous", "sparse"]),
    )
    d.update(over)
    return gen.GenCfg(**d)


def random_subset(rng, ids, *, nonempty=True, proper=False):
    ids = list(ids)
    while True:
        s = [v for v in ids if rng.random() < 0.5]
        if nonempty and not s:
            continue
        if proper and len(s) == len(ids) and len(ids) > 1:
            continue
        return s


def random_obs(rng, domains, vs):
    obs = {}
    for v in vs:
        d = domains[v]
        if d[0] == "disc":
            obs[v] = rng.randrange(d[1])
        else:  # continuous: mostly floats, sometimes a python int (int and float observations mix)
            obs[v] = rng.choice([-1, 0, 1, 2]) if rng.random() < 0.3 else round(rng.uniform(-2.0, 2.0), 3)
    return obs


def gen_pipeline(rng: random.Random, kind: str, **over):
    """Returns (root, info). info: {'domains', 'desc', 'bases', 'steps'}; root is a symbolic circuit
    whose operation chain was built by the real operators."""
    steps = []
    if kind in ("integrate", "evidence", "conjugate", "evi-int", "int-int", "conj-int", "concat"):
        kinds = INTEGRABLE if "int" in kind else ("cat", "binomial", "embedding", "gaussian", "gaussian_lp", "poly")
        cfg = base_cfg(rng, kinds, **over)
        if kind in ("conjugate", "conj-int") and rng.random() < 0.5:
            cfg.complex = True
            cfg.kinds = tuple(k for k in cfg.kinds if k in ("embedding", "poly", "cat")) if kind == "conjugate" else ("embedding", "cat")
        sc, meta = gen.gen_circuit(rng, cfg)
        domains = dict(meta["domains"])
        ids = sorted(domains)
        bases = [sc]
        cur = sc
        if kind == "integrate":
            z = random_subset(rng, ids)
            cur = SF.integrate(cur, Scope(z))
            steps.append(("integrate", z))
        elif kind == "evidence":
            z = random_subset(rng, ids)
            obs = random_obs(rng, domains, z)
            cur = SF.evidence(cur, obs)
            steps.append(("evidence", obs))
        elif kind == "conjugate":
            cur = SF.conjugate(cur)
            steps.append(("conjugate",))
        elif kind == "conj-int":
            cur = SF.conjugate(cur)
            z = random_subset(rng, ids)
            cur = SF.integrate(cur, Scope(z))
            steps += [("conjugate",), ("integrate", z)]
        elif kind == "evi-int":
            if len(ids) < 2:
                z = ids
                cur = SF.integrate(cur, Scope(z))
                steps.append(("integrate", z))
            else:
                z = random_subset(rng, ids, proper=True)
                obs = random_obs(rng, domains, z)
                cur = SF.evidence(cur, obs)
                rest = [v for v in ids if v not in z]
                z2 = random_subset(rng, rest)
                cur = SF.integrate(cur, Scope(z2))
                steps += [("evidence", obs), ("integrate", z2)]
        elif kind == "int-int":
            if len(ids) < 2:
                cur = SF.integrate(cur)
                steps.append(("integrate", ids))
            else:
                z = random_subset(rng, ids, proper=True)
                cur = SF.integrate(cur, Scope(z))
                rest = [v for v in ids if v not in z]
                z2 = random_subset(rng, rest)
                cur = SF.integrate(cur, Scope(z2))
                steps += [("integrate", z), ("integrate", z2)]
        elif kind == "concat":
            k = rng.randint(2, 3)
            others = []
            for _ in range(k - 1):
                c2 = base_cfg(rng, kinds, out_units=cfg.out_units, id_mode=cfg.id_mode)
                s2, m2 = gen.gen_circuit(rng, c2)
                for v, d in m2["domains"].items():
                    if v in domains and domains[v] != d:
                        break
                else:
                    domains.update(m2["domains"])
                    others.append(s2)
            if rng.random() < 0.3:
                others.append(sc)
            bases += others
            cur = SF.concatenate([sc] + others)
            steps.append(("concatenate", len(others) + 1))
        return cur, {"domains": domains, "bases": bases, "steps": steps, "kind": kind}

    if kind in ("multiply", "square", "mul-int", "sq-int", "sq-conj-int", "mul3", "mul-evi", "diff", "mul-diff"):
        kinds = ("poly",) if "diff" in kind else MULTIPLIABLE
        if kind in ("mul-int", "sq-int", "sq-conj-int"):
            kinds = INTEGRABLE
        d = dict(structured=True, outputs=rng.choice([1, 1, 2]), out_units=rng.choice([1, 1, 2]))
        d.update(over)
        cfg = base_cfg(rng, kinds, **d)
        if kind == "sq-conj-int" and rng.random() < 0.6:
            cfg.complex = True
            cfg.kinds = ("embedding", "cat")
        if kind == "diff":
            sc, meta = gen.gen_circuit(rng, cfg)
            order = rng.choice([1, 1, 2, 3])
            cur = SF.differentiate(sc, order=order)
            return cur, {"domains": dict(meta["domains"]), "bases": [sc], "steps": [("differentiate", order)], "kind": kind}
        n = 3 if kind == "mul3" else 2
        if kind.startswith("sq"):
            sc, meta = gen.gen_circuit(rng, cfg)
            circuits = [sc, sc]
        else:
            cfg2 = base_cfg(rng, kinds, nvars=cfg.nvars, id_mode=cfg.id_mode, structured=True)
            if rng.random() < 0.3:
                circuits, meta = gen.gen_twin_pair(rng, cfg, n=n)
            else:
                circuits, meta = gen.gen_compatible_pair(rng, cfg, cfg2, n=n)
        domains = dict(meta["domains"])
        ids = sorted(domains)
        bases = list(dict.fromkeys(circuits))
        if kind == "sq-conj-int":
            cur = SF.multiply(circuits[0], SF.conjugate(circuits[0]))
            steps += [("conjugate",), ("multiply",)]
        elif kind == "mul-evi":
            z = random_subset(rng, ids, proper=len(ids) > 1)
            obs = random_obs(rng, domains, z)
            e1 = SF.evidence(circuits[0], obs)
            e2 = SF.evidence(circuits[1], random_obs(rng, domains, z))
            if not structs.circuit_scope(e1):
                cur = e1
                steps += [("evidence", obs)]
            else:
                cur = SF.multiply(e1, e2)
                steps += [("evidence", obs), ("evidence2",), ("multiply",)]
        else:
            cur = SF.multiply(circuits[0], circuits[1])
            steps.append(("multiply",))
            if n == 3:
                cur = SF.multiply(cur, circuits[2])
                steps.append(("multiply",))
        if kind in ("mul-int", "sq-int", "sq-conj-int"):
            z = random_subset(rng, ids)
            cur = SF.integrate(cur, Scope(z))
            steps.append(("integrate", z))
        if kind == "mul-diff":
            cur = SF.differentiate(cur, order=1)
            steps.append(("differentiate", 1))
        return cur, {"domains": domains, "bases": bases, "steps": steps, "kind": kind}
    if kind == "twin-mul":
        # two models of ONE architecture with ONE leaf family (cycled over by the case index through
        # `over["leaf"]`): every pair of layers met by a product rule has equal shapes, so a rule that
        # reads the wrong operand's tensor cannot fail on a shape; optionally integrated afterwards
        leaf = over.pop("leaf", None) or rng.choice(TWIN_LEAVES)
        lk, cm = leaf
        d = dict(structured=True, outputs=1, out_units=rng.choice([1, 2]), same_kind_all_vars=True)
        if cm is not None:
            d["cat_modes"] = (cm,)
        d.update(over)
        cfg = base_cfg(rng, (lk,), **d)
        circuits, meta = gen.gen_twin_pair(rng, cfg, n=2)
        if rng.random() < 0.5:
            circuits = circuits[::-1]
        domains = dict(meta["domains"])
        ids = sorted(domains)
        cur = SF.multiply(circuits[0], circuits[1])
        steps.append(("multiply",))
        if lk in INTEGRABLE and rng.random() < 0.5:
            z = random_subset(rng, ids)
            cur = SF.integrate(cur, Scope(z))
            steps.append(("integrate", z))
        return cur, {"domains": domains, "bases": list(circuits), "steps": steps, "kind": kind, "leaf": leaf}
    raise ValueError(kind)


TWIN_LEAVES = [("cat", "probs_raw"), ("cat", "probs_softmax"), ("cat", "logits"), ("cat", "logits_lsm"),
               ("embedding", None), ("gaussian", None), ("gaussian_lp", None), ("poly", None)]

PIPE_KINDS = [
    "integrate", "evidence", "conjugate", "evi-int", "int-int", "conj-int", "concat",
    "multiply", "square", "mul-int", "sq-int", "sq-conj-int", "mul3", "mul-evi", "diff", "mul-diff", "twin-mul",
]


def remaining_domains(root, domains):
    sc = structs.circuit_scope(root)
    return {v: d for v, d in domains.items() if v in sc}
