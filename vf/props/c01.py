"""C01 -- the compiled circuit computes the function its symbolic circuit denotes.

Monitor: value + shape + row-independence at TorchCircuit.__call__ against the numpy reference
interpreter (vf.ref) under the valuation read through the compiler's own symbolic->compiled map;
ambient layer-shape / parameter-node-shape hooks.
"""
from __future__ import annotations

import numpy as np

from vf import cc as C
from vf import gen, structs, tie
from vf.common import Result, call, case_rng, exc_violation, np_rng, short_hash

ID = "C01"
RULE = (
    "random well-formed symbolic circuits (vf.gen: random recursive partitionings, Hadamard / "
    "Kronecker products, dense / mixing sums of arity 1-4, 1-3 outputs, shared sub-circuits, "
    "interior outputs, sparse variable ids) x semiring x 4 fold/optimize flags x valuation class x "
    "batch sizes {1,2,5,F-1,F,F+1}; a case is one (circuit, semiring, valuation) evaluated under "
    "all 4 flag combinations; distinct = distinct structure signature (layer types, arities, "
    "units, scopes, parameter node types) x semiring; non-trivial = at least one inner layer"
)
EXHAUSTIVE_SUBSPACES = [
    "all complete assignments of purely discrete circuits with <= 256 assignments",
    "all 4 (fold, optimize) combinations for every case",
]
ASSUMPTIONS = [
    "reference interpreter vf/ref.py implements the documented semantics (selftested on the repository's hand-computed ground truths)",
    "lse-sum only run on monotonic valuations (non-negative weights / input values)",
    "input batch has one column per variable id; discrete values inside the layer's domain",
    "all output layers of a multi-output circuit have the same number of units",
]
FLOOR = {
    "in:categorical-probs": 1, "in:categorical-logits": 1, "in:binomial-probs": 1, "in:embedding": 1,
    "in:gaussian": 1, "in:gaussian-lp": 1, "in:polynomial": 1, "in:constant-lin": 1, "in:constant-log": 1,
    "sum:arity1": 1, "sum:arity>1": 1, "sum:mixing>1": 1, "prod:hadamard": 1,
    "prod:kronecker-arity2": 1, "prod:kronecker-arity3": 1,
    "cc:TorchTuckerLayer": 1, "cc:TorchCPTLayer": 1,
    "sr:sum-product": 1, "sr:lse-sum": 1, "sr:complex-lse-sum": 1,
    "B=1&F>1": 1, "B=F&F>1": 1, "multi-output": 1, "interior-output": 1, "shared-layer": 1,
    "ids:>=8": 1, "values_compared": 1000, "complex-valuation": 1, "lse-sum&exact-zeros": 1,
}

PRESETS = [
    # (name, cfg overrides, semirings)
    ("mixed", dict(), ("sum-product", "complex-lse-sum")),
    ("mono", dict(monotonic=True, kinds=("cat", "binomial", "embedding", "gaussian", "gaussian_lp")), ("lse-sum", "sum-product", "complex-lse-sum")),
    ("mono-disc", dict(monotonic=True, kinds=("cat", "binomial", "embedding")), ("lse-sum", "sum-product")),
    ("kron3", dict(prod_kinds=("kronecker",), max_parts=3, nvars=4, multi_part_prob=0.0), ("sum-product",)),
    ("mixing", dict(mixing_prob=1.0, max_reps=3, prod_kinds=("hadamard",)), ("sum-product",)),
    ("mono-mixing", dict(monotonic=True, mixing_prob=0.8, max_reps=3, kinds=("cat", "binomial"), prod_kinds=("hadamard",)), ("lse-sum",)),
    ("poly", dict(kinds=("poly",), nvars=3), ("sum-product", "complex-lse-sum")),
    ("complex", dict(complex=True, kinds=("embedding", "poly", "cat")), ("complex-lse-sum",)),
    ("const", dict(const_factor_prob=0.5), ("sum-product",)),
    ("multi", dict(outputs=3, out_units=2, share_prob=0.6), ("sum-product",)),
    ("interior", dict(interior_output=True, out_units=2), ("sum-product", "complex-lse-sum")),
    ("subout", dict(sub_output=True, out_units=2, nvars=4), ("sum-product",)),
    ("sparse", dict(id_mode="sparse"), ("sum-product",)),
    ("sparse-mono", dict(id_mode="sparse", monotonic=True, kinds=("cat", "gaussian", "binomial")), ("lse-sum",)),
    ("random-ids", dict(id_mode="random", nvars=4), ("sum-product",)),
    ("nonsmooth", dict(defect="nonsmooth", out_units=2), ("sum-product",)),
    ("nondecomp", dict(defect="nondecomp", out_units=2), ("sum-product",)),
    ("nondecomp3", dict(defect="nondecomp3", out_units=2, nvars=4), ("sum-product",)),
    ("nonsmooth-const", dict(defect="nonsmooth-const", out_units=2), ("sum-product",)),
    ("structured", dict(structured=True, max_reps=3, nvars=5), ("sum-product",)),
    ("samekind-fold", dict(same_kind_all_vars=True, nvars=5, structured=True, share_prob=0.0, max_units=2), ("sum-product",)),
]


def plan(tier: str, seed: int):
    n_per = 22 if tier == "quick" else 1920
    cases = []
    for name, over, semirings in PRESETS:
        for k in range(n_per):
            for sr in semirings:
                cases.append({"kind": "gen", "preset": name, "k": k, "semiring": sr, "seed": seed})
    return cases


def build(case):
    name = case["preset"]
    over = dict(next(p for p in PRESETS if p[0] == name)[1])
    rng = case_rng(ID, case["seed"], (name, case["k"]))
    over.setdefault("nvars", rng.randint(1, 5))
    over.setdefault("out_units", rng.choice([1, 1, 2, 3]))
    cfg = gen.GenCfg(**over)
    sc, meta = gen.gen_circuit(rng, cfg)
    return rng, cfg, sc, meta


def struct_sig(sc) -> str:
    scopes = structs.layer_scopes(sc)
    items = []
    for sl in sc.layers:
        items.append((type(sl).__name__, sl.arity, sl.num_input_units, sl.num_output_units, tuple(sorted(scopes[sl])),
                      tuple(sorted(type(n).__name__ for _, _, p in tie.iter_layer_params(sl) for n in p.nodes))))
    return short_hash(sorted(items) + [len(sc.outputs)])


def run_case(case) -> Result:
    res = Result()
    rng, cfg, sc, meta = build(case)
    sr = case["semiring"]
    nrng = np_rng(rng)
    res.features |= structs.circuit_features(sc)
    res.features.add("sr:" + sr)
    res.sig = struct_sig(sc) + ":" + sr
    res.nontrivial = any(True for _ in sc.inner_layers)
    domains = meta["domains"]
    vclass_choices = ["init", "normal", "wide", "sparse"] if not cfg.monotonic else ["init", "posonly", "normal", "zeros", "zeros"]
    vcls = rng.choice(vclass_choices)
    vseed = rng.getrandbits(32)
    if cfg.complex:
        res.features.add("complex-valuation")
    if vcls == "zeros" and sr == "lse-sum":
        res.features.add("lse-sum&exact-zeros")

    pool = gen.all_assignments(domains, limit=256)
    if pool is None:
        pool = gen.random_inputs(nrng, domains, 9)
    else:
        res.features.add("all-assignments")

    for fold, opt in C.FLAGS:
        tag = C.flag_name(fold, opt)
        out = call(lambda: (lambda comp: (comp, comp.compile(sc)))(C.new_compiler(sr, fold, opt)))
        if not out.ok:
            exc_violation(res, out, f"compile [{tag}]")
            continue
        compiler, cc = out.value
        res.features |= structs.compiled_features(cc)
        res.features.add(tag)
        if vcls != "init":
            tie.revalue(compiler, sc, np.random.default_rng(vseed), vcls)
        if sr == "lse-sum" and not C.monotone_ok(sc, compiler):
            res.note = "non-monotone valuation skipped for lse-sum"
            continue
        # full pool, every prescribed batch size, and a row permutation
        r_all, a_all = C.reference(sc, compiler, pool)
        if not np.all(np.isfinite(a_all)):
            res.note = "non-finite reference (overflow) skipped"
            continue
        fcs = structs.fold_counts(cc)
        sizes = [b for b in gen.batch_sizes(fcs) if b <= pool.shape[0]] + [pool.shape[0]]
        for B in sorted(set(sizes)):
            ok = C.check_value(res, sc, compiler, cc, pool[:B], sr, f"{tag} {vcls}", r=r_all[:B], a=a_all[:B])
            res.count("evaluations")
            fmax = max(fcs)
            if fmax > 1 and B == 1:
                res.features.add("B=1&F>1")
            if fmax > 1 and B in fcs:
                res.features.add("B=F&F>1")
            if not ok:
                break
        perm = nrng.permutation(pool.shape[0])
        C.check_value(res, sc, compiler, cc, pool[perm], sr, f"{tag} {vcls} permuted-rows", r=r_all[perm], a=a_all[perm])
        res.count("evaluations")
    return res
