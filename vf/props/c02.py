"""C02 -- folding and optimisation never change the computed function; every symbolic tensor
parameter stays addressable as exactly one slice of exactly one compiled tensor.

Monitor: 4-compiler differential.  The same symbolic object (circuit or operator pipeline) is
compiled under the 4 (fold, optimize) combinations, valuations are tied symbol by symbol from
the (F,F) compiler through the symbolic->compiled map, outputs are compared pairwise against
(F,F) and against the numpy reference; the map itself is checked for addressability (injective,
index in range, shape) and write-probed (a second valuation written through the map must move
the output exactly as the reference predicts).
"""
from __future__ import annotations

import numpy as np

from cirkit.symbolic import parameters as P

from vf import cc as C
from vf import gen, pipes, structs, tie
from vf.common import Result, call, case_rng, close_lin, exc_violation, np_rng, short_hash, to_linear
from vf.props import c01

ID = "C02"
RULE = (
    "random circuits (vf.gen presets, incl. multi-output, shared sub-circuits, interior outputs) and "
    "operator pipelines (vf.pipes: integrate / multiply / square / differentiate / conjugate / "
    "evidence / concatenate, depth 1-3) plus directed graphs for each rewrite rule; every object "
    "compiled under all 4 flag combinations with tied valuations; distinct = structure signature "
    "x semiring; non-trivial = some flag combination changed the compiled graph (fold>1 or an "
    "optimised layer / parameter node present)"
)
EXHAUSTIVE_SUBSPACES = ["all 4 (fold, optimize) combinations per object", "every circuit of a pipeline (operands and result)"]
ASSUMPTIONS = [
    "reference interpreter vf/ref.py",
    "valuations are tied through compiler.state.retrieve_compiled_parameter, the map the property talks about",
    "lse-sum only on monotonic valuations",
]
FLOOR = {
    "cc:TorchTuckerLayer": 1, "cc:TorchCPTLayer": 1, "cc:TorchTensorDotLayer": 1, "ccp:TorchMatMulParameter": 1,
    "ccp:TorchLogSoftmaxParameter": 1, "ccp:TorchEinsumParameter": 1,
    "cc:fold>1:TorchSumLayer": 1, "cc:fold>1:TorchHadamardLayer": 1, "cc:fold>1:TorchCategoricalLayer": 1,
    "cc:fold>1:TorchConstantValueLayer": 1, "cc:fold>1:TorchEvidenceLayer": 1,
    "ccp:fold>1:TorchTensorParameter": 1, "ccp:pointer-fold-idx": 1, "ccp:fold>1:TorchPointerParameter": 1,
    "ab:index-tensor": 1, "ab:unsqueeze0": 1, "ab:unsqueeze1": 1, "product-with-several-consumers": 1,
    "interior-output": 1, "multi-output": 1, "shared-layer": 1, "pipeline": 1,
    "addressable_checked": 100, "values_compared": 1000,
}

GEN_PRESETS = ["mixed", "mono", "mono-disc", "kron3", "mixing", "mono-mixing", "poly", "complex", "const", "multi",
               "interior", "subout", "sparse", "structured", "samekind-fold"]


def plan(tier, seed):
    n_gen = 14 if tier == "quick" else 1200
    n_pipe = 20 if tier == "quick" else 1440
    cases = []
    for name in GEN_PRESETS:
        _, _, semirings = next(p for p in c01.PRESETS if p[0] == name)
        for k in range(n_gen):
            cases.append({"kind": "gen", "preset": name, "k": 1000 + k, "semiring": semirings[k % len(semirings)], "seed": seed})
    for kind in pipes.PIPE_KINDS:
        for k in range(n_pipe):
            cases.append({"kind": "pipe", "pipe": kind, "k": k, "seed": seed})
    for d in DIRECTED:
        for k in range(4 if tier == "quick" else 144):
            cases.append({"kind": "directed", "name": d, "k": k, "seed": seed})
    return cases


# ---------------------------------------------------------------------------------------------
# directed graphs: one per rewrite / fold path, built by hand so that they reach it by construction
# ---------------------------------------------------------------------------------------------
def _directed(name, rng):
    from cirkit.symbolic import layers as L
    from cirkit.symbolic.circuit import Circuit
    from cirkit.utils.scope import Scope
    import cirkit.symbolic.functional as SF

    k = rng.randint(2, 3)
    n = rng.randint(2, 3)

    def cat(v, units=k, **kw):
        return L.CategoricalLayer(Scope([v]), units, num_categories=n, **kw)

    def emb(v, units=k):
        return L.EmbeddingLayer(Scope([v]), units, num_states=n)

    domains = {}
    if name in ("sum-sum", "sum-sum-arity2", "sum-hadamard", "sum-kronecker", "sum-kronecker3",
                "inner-is-output:sum-sum", "inner-is-output:sum-hadamard", "inner-is-output:sum-kronecker"):
        arity = 3 if name.endswith("3") else 2
        ins = [emb(v) for v in range(arity)]
        domains = {v: ("disc", n) for v in range(arity)}
        layers, in_layers = list(ins), {}
        if "hadamard" in name:
            inner = L.HadamardLayer(k, arity=arity)
            in_layers[inner] = ins
            layers.append(inner)
        elif "kronecker" in name:
            inner = L.KroneckerLayer(k, arity=arity)
            in_layers[inner] = ins
            layers.append(inner)
        else:
            h = L.HadamardLayer(k, arity=2)
            in_layers[h] = ins
            layers.append(h)
            if name == "sum-sum-arity2":
                h2 = L.HadamardLayer(k, arity=2)
                in_layers[h2] = list(reversed(ins))
                layers.append(h2)
                inner = L.SumLayer(k, k, arity=2)
                in_layers[inner] = [h, h2]
            else:
                inner = L.SumLayer(k, k, arity=1)
                in_layers[inner] = [h]
            layers.append(inner)
        ko = k if name.startswith("inner-is-output") and "kronecker" not in name else rng.randint(1, 3)
        if name.startswith("inner-is-output") and "kronecker" in name:
            ko = inner.num_output_units
        top = L.SumLayer(inner.num_output_units, ko, arity=1)
        in_layers[top] = [inner]
        layers.append(top)
        outs = [top, inner] if name.startswith("inner-is-output") else [top]
        if name.startswith("inner-is-output") and rng.random() < 0.5:
            outs = [inner, top]
        return Circuit(layers, in_layers, outs), domains
    if name == "logsoftmax-product":
        # product of softmax-parameterised categoricals -> Log(Softmax) in the logits
        a = Circuit([cat(0)], {}, [])
        cfg = gen.GenCfg(nvars=2, kinds=("cat",), structured=True, cat_modes=("probs_softmax",), out_units=1, max_reps=1)
        (c1, c2), meta = gen.gen_compatible_pair(rng, cfg, cfg)
        return SF.multiply(c1, c2), meta["domains"]
    if name.startswith("einsum"):
        # integrate a product of embedding circuits: ReduceSum(OuterProduct(w1, w2))
        cfg = gen.GenCfg(nvars=rng.randint(1, 3), kinds=("embedding",), structured=True, out_units=1, max_reps=1)
        (c1, c2), meta = gen.gen_compatible_pair(rng, cfg, cfg)
        return SF.integrate(SF.multiply(c1, c2)), meta["domains"]
    if name == "tensordot-pair":
        cfg = gen.GenCfg(nvars=2, kinds=("cat", "embedding"), structured=True, out_units=rng.randint(1, 2), prod_kinds=("hadamard",), max_reps=1, skip_sum_prob=0.0)
        (c1, c2), meta = gen.gen_compatible_pair(rng, cfg, cfg)
        return SF.multiply(c1, c2), meta["domains"]
    if name == "tensordot-triple":
        cfg = gen.GenCfg(nvars=2, kinds=("cat", "embedding"), structured=True, out_units=1, prod_kinds=("hadamard",), max_reps=1, skip_sum_prob=0.0)
        (c1, c2, c3), meta = gen.gen_compatible_pair(rng, cfg, cfg, n=3)
        return SF.multiply(SF.multiply(c1, c2), c3), meta["domains"]
    if name == "evidence-fold":
        cfg = gen.GenCfg(nvars=4, kinds=(rng.choice(["cat", "gaussian", "embedding", "binomial", "poly"]),), structured=True, same_kind_all_vars=True,
                         out_units=1, max_units=2, share_prob=0.0, leaf_sum_prob=0.0)
        sc, meta = gen.gen_circuit(rng, cfg)
        ids = sorted(meta["domains"])
        z = ids[:3]
        return SF.evidence(sc, pipes.random_obs(rng, meta["domains"], z)), meta["domains"]
    if name == "constant-fold":
        cfg = gen.GenCfg(nvars=4, kinds=("cat",), structured=True, out_units=1, max_units=2, share_prob=0.0, leaf_sum_prob=0.0)
        sc, meta = gen.gen_circuit(rng, cfg)
        return SF.integrate(sc), meta["domains"]
    if name == "pointer-fold":
        cfg = gen.GenCfg(nvars=4, kinds=("cat",), structured=True, out_units=1, max_units=2, share_prob=0.0, leaf_sum_prob=0.0,
                         prod_kinds=("hadamard",), cat_modes=("probs_softmax",))
        sc, meta = gen.gen_circuit(rng, cfg)
        return SF.integrate(SF.multiply(sc, sc)), meta["domains"]
    raise ValueError(name)


DIRECTED = [
    "sum-sum", "sum-sum-arity2", "sum-hadamard", "sum-kronecker", "sum-kronecker3",
    "inner-is-output:sum-sum", "inner-is-output:sum-hadamard", "inner-is-output:sum-kronecker",
    "logsoftmax-product", "einsum", "tensordot-pair", "tensordot-triple", "evidence-fold", "constant-fold", "pointer-fold",
]


def build(case):
    if case["kind"] == "gen":
        rng, cfg, sc, meta = c01.build(case)
        return rng, sc, meta["domains"], case["semiring"], cfg.monotonic, cfg.complex
    if case["kind"] == "pipe":
        rng = case_rng(ID, case["seed"], ("pipe", case["pipe"], case["k"]))
        root, info = pipes.gen_pipeline(rng, case["pipe"])
        cx = any(n.dtype.name == "COMPLEX" for c in tie.pipeline_circuits(root) for n in tie.circuit_leaves(c)[0])
        return rng, root, info["domains"], ("complex-lse-sum" if cx or rng.random() < 0.3 else "sum-product"), False, cx
    rng = case_rng(ID, case["seed"], ("directed", case["name"], case["k"]))
    sc, domains = _directed(case["name"], rng)
    return rng, sc, domains, rng.choice(["sum-product", "sum-product", "complex-lse-sum"]), False, False


def check_addressable(res: Result, compiler, root, tag):
    """Every symbolic tensor parameter of every circuit of the pipeline: registered, index in
    range, declared shape, no two symbols on the same slice, tensor owned by its circuit."""
    seen = {}
    for c in tie.pipeline_circuits(root):
        owned, referenced = tie.circuit_leaves(c)
        ccirc = compiler.get_compiled_circuit(c)
        own_storages = {id(p) for p in ccirc.parameters()}
        for p in owned + referenced:
            res.count("addressable_checked")
            if not compiler.state.has_compiled_parameter(p):
                res.violate("not-addressable", f"[{tag}] symbolic parameter {p.shape} of {type(c).__name__} missing from the compiler map")
                continue
            t, i = compiler.state.retrieve_compiled_parameter(p)
            if not (0 <= i < t.num_folds):
                res.violate("not-addressable", f"[{tag}] fold index {i} out of range for tensor with {t.num_folds} folds")
                continue
            if tuple(t.shape) != tuple(p.shape) or t._ptensor is None or tuple(t._ptensor.shape) != (t.num_folds, *p.shape):
                res.violate("not-addressable", f"[{tag}] slice shape {tuple(t.shape)} != symbolic shape {p.shape}")
                continue
            key = (id(t), i)
            if key in seen and seen[key] is not p:
                res.violate("not-addressable", f"[{tag}] two symbolic parameters mapped to the same slice")
            seen[key] = p
            if id(t._ptensor) not in own_storages:
                res.violate("not-addressable", f"[{tag}] mapped tensor is not among the parameters of the compiled circuit that reads it")


def run_case(case) -> Result:
    res = Result()
    out = call(build, case)
    if not out.ok:
        from vf.monitors import MonitorViolation

        # building a pipeline may legitimately be refused by an operator (recorded, not a violation
        # of C02); contract violations are still reported
        if isinstance(out.exc, MonitorViolation):
            exc_violation(res, out, "building the pipeline")
        else:
            res.status = "refused"
            res.note = f"{out.exc_type}: {out.exc} @ {out.where()}"
        return res
    rng, root, domains, sr, mono, cx = out.value
    nrng = np_rng(rng)
    if case["kind"] != "gen":
        res.features.add("pipeline")
    circuits = tie.pipeline_circuits(root)
    for c in circuits:
        res.features |= structs.circuit_features(c)
    res.features.add("sr:" + sr)
    res.sig = short_hash([c01.struct_sig(c) for c in circuits]) + ":" + sr

    compiled = {}
    for fold, opt in C.FLAGS:
        tag = C.flag_name(fold, opt)
        o = call(lambda: (lambda comp: (comp, comp.compile(root)))(C.new_compiler(sr, fold, opt)))
        if not o.ok:
            if (fold, opt) == (False, False):
                exc_violation(res, o, f"compile [{tag}]", "exception-compile-unfolded")
                return res
            exc_violation(res, o, f"compile [{tag}] (the unfolded, unoptimised compilation succeeded)", "exception-compile")
            continue
        compiled[(fold, opt)] = o.value
    base_comp, _ = compiled[(False, False)]
    nontrivial = False
    for (fold, opt), (comp, cc_) in compiled.items():
        for c in circuits:
            f = structs.compiled_features(comp.get_compiled_circuit(c))
            res.features |= f
            if fold and "cc:fold>1" in f:
                nontrivial = True
            if opt and f & {"cc:TorchTuckerLayer", "cc:TorchCPTLayer", "cc:TorchTensorDotLayer", "ccp:TorchMatMulParameter", "ccp:TorchLogSoftmaxParameter", "ccp:TorchEinsumParameter"}:
                nontrivial = True
    res.nontrivial = nontrivial

    for rounds, vcls in enumerate(["init", rng.choice(["normal", "normal", "wide"] if not mono else ["posonly"])]):
        if vcls != "init":
            tie.revalue(base_comp, root, np.random.default_rng(rng.getrandbits(32)), vcls)
        for key, (comp, _) in compiled.items():
            if key != (False, False):
                tie.copy_valuation(base_comp, comp, root)
            check_addressable(res, comp, root, C.flag_name(*key))
        if res.violations:
            return res
        if sr == "lse-sum" and not all(C.monotone_ok(c, base_comp) for c in circuits):
            res.note = "non-monotone valuation skipped for lse-sum"
            continue
        for c in circuits:
            cdom = pipes.remaining_domains(c, domains)
            if structs.circuit_scope(c):
                pool = gen.all_assignments(cdom, limit=128)
                if pool is None:
                    pool = gen.random_inputs(nrng, cdom, 7)
                if pool.shape[1] < max(domains) + 1:
                    pad = np.full((pool.shape[0], max(domains) + 1 - pool.shape[1]), 3, dtype=pool.dtype)
                    pool = np.concatenate([pool, pad], axis=1)
            else:
                pool = None
            r, a = C.reference(c, base_comp, pool)
            if not np.all(np.isfinite(a)):
                continue
            base_out = None
            for key, (comp, _) in compiled.items():
                tag = f"{C.flag_name(*key)} {vcls} circuit#{circuits.index(c)}"
                cc_ = comp.get_compiled_circuit(c)
                tol = "fft" if "p:PolynomialProduct" in res.features else "exact"
                ok = C.check_value(res, c, base_comp, cc_, pool, sr, tag, tol, r=r, a=a)
                res.count("evaluations")
                if not ok:
                    continue
                got = to_linear(C.evaluate(cc_, pool), sr)
                if base_out is None:
                    base_out = got
                else:
                    aa = a if structs.circuit_scope(c) else a[0]
                    ok2, idx, msg = close_lin(got, base_out, aa, tol)
                    res.count("flag_pairs_compared")
                    if not ok2:
                        res.violate("flag-mismatch", f"[{tag}] differs from fold=0,opt=0 at {idx}: {msg}")
    return res
