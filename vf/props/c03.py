"""C03 -- integrate returns exactly the marginal / partition function.

Monitor: the compiled result of the real `integrate` operator is compared, at every remaining
assignment y, with a brute-force sum / trapezoid quadrature over the *reference evaluation of the
operand c* (vf.brute); nested integration is compared with integrating the union.
"""
from __future__ import annotations

import itertools

import numpy as np

import cirkit.symbolic.functional as SF
from cirkit.utils.scope import Scope

from vf import brute, cc as C, gen, pipes, structs, tie
from vf.common import Result, call, case_rng, compare_semiring, exc_violation, np_rng, short_hash
from vf.props import c01

ID = "C03"
RULE = (
    "smooth decomposable random circuits over {embedding, categorical probs/logits, Gaussian, "
    "Gaussian+log-partition} and products of two such circuits (unnormalised Gaussians / logits); "
    "for n <= 4 variables ALL non-empty subsets Z, random subsets above; nested Z1 then Z2 vs union; "
    "multi-output; 4 flags; sum-product / lse-sum / complex-lse-sum; distinct = (structure "
    "signature, Z); non-trivial = Z cuts through at least one product layer's scope or is the full scope"
    " Also (square-flat): c0*c0 / c0*conj(c0) for flat circuits whose 3-4 same-shaped input layers fold into one "
    "tensor (layer list and product input list in independent random orders), all Z, all 4 flags;"
)
EXHAUSTIVE_SUBSPACES = ["all non-empty variable subsets Z for circuits with <= 4 variables", "all 4 (fold, optimize) combinations"]
ASSUMPTIONS = [
    "reference interpreter vf/ref.py; trapezoid quadrature on [mu-13s, mu+13s] with step s_min/6 (spectrally accurate for Gaussian integrands)",
    "polynomial / binomial inputs have no symbolic integration rule and are not generated",
]
FLOOR = {
    "in:embedding": 1, "in:categorical-probs": 1, "in:categorical-logits": 1, "in:gaussian": 1, "in:gaussian-lp": 1,
    "square-flat": 4, "Z:partial": 1, "Z:full": 1, "Z:continuous": 1, "nested": 1, "multi-output": 1, "operand:product": 1,
    "marginals_compared": 200,
}


def plan(tier, seed):
    n = 28 if tier == "quick" else 450
    cases = []
    for k in range(n):
        for kind in ("base", "base-mono", "product", "cont"):
            cases.append({"kind": kind, "k": k, "seed": seed})
    for k in range(8 if tier == "quick" else 600):
        cases.append({"kind": "square-flat", "k": k, "seed": seed})
    return cases


def build(case):
    rng = case_rng(ID, case["seed"], (case["kind"], case["k"]))
    kind = case["kind"]
    if kind == "square-flat":
        return build_square_flat(rng)
    if kind == "product":
        cfg = pipes.base_cfg(rng, pipes.INTEGRABLE, nvars=rng.randint(1, 3), structured=True)
        cfg2 = pipes.base_cfg(rng, pipes.INTEGRABLE, nvars=cfg.nvars, id_mode=cfg.id_mode, structured=True)
        (c1, c2), meta = gen.gen_compatible_pair(rng, cfg, cfg2)
        c = SF.multiply(c1, c2)
        return rng, c, meta["domains"], False
    mono = kind == "base-mono"
    kinds = ("gaussian", "gaussian_lp", "cat") if kind == "cont" else pipes.INTEGRABLE
    cfg = pipes.base_cfg(rng, kinds, nvars=rng.randint(1, 5 if kind != "cont" else 3), structured=rng.random() < 0.5,
                         monotonic=mono, multi_part_prob=0.3, outputs=rng.choice([1, 1, 2, 3]))
    sc, meta = gen.gen_circuit(rng, cfg)
    return rng, sc, meta["domains"], mono


def build_square_flat(rng):
    """c0*c0 (or c0*conj(c0)) for a flat circuit with V same-shaped input layers that fold into one
    tensor: under fold=True every integrated / remaining group of the product reads that tensor through
    pointers with *repeated* fold indices; the layer list and the product's input list are in
    independent random orders, and all Z are enumerated (V <= 4)."""
    from cirkit.symbolic import layers as L
    from cirkit.symbolic import parameters as P
    from cirkit.symbolic.circuit import Circuit
    from cirkit.symbolic.initializers import NormalInitializer

    V, K, n = rng.randint(3, 4), rng.randint(1, 3), rng.randint(2, 3)
    fam = rng.choice(["embedding", "cat-logits", "cat-probs"])
    ins = []
    for v in range(V):
        t = P.Parameter.from_input(P.TensorParameter(K, n, initializer=NormalInitializer()))
        if fam == "embedding":
            ins.append(L.EmbeddingLayer(Scope([v]), K, num_states=n, weight=t))
        elif fam == "cat-logits":
            ins.append(L.CategoricalLayer(Scope([v]), K, num_categories=n, logits=t))
        else:
            ins.append(L.CategoricalLayer(Scope([v]), K, num_categories=n, probs=P.Parameter.from_unary(P.SoftmaxParameter((K, n)), t)))
    prod = L.HadamardLayer(K, arity=V)
    ko = rng.randint(1, 2)
    out = L.SumLayer(K, ko, arity=1, weight=P.Parameter.from_input(P.TensorParameter(ko, K, initializer=NormalInitializer())))
    listed = list(ins)
    rng.shuffle(listed)
    wired = list(ins)
    rng.shuffle(wired)
    c0 = Circuit(listed + [prod, out], {prod: wired, out: [prod]}, [out])
    c = SF.multiply(c0, SF.conjugate(c0)) if rng.random() < 0.3 else SF.multiply(c0, c0)
    return rng, c, {v: ("disc", n) for v in range(V)}, False


def subsets(rng, ids):
    ids = list(ids)
    if len(ids) <= 4:
        out = []
        for r in range(1, len(ids) + 1):
            out += [list(s) for s in itertools.combinations(ids, r)]
        return out, True
    out = [ids] + [pipes.random_subset(rng, ids) for _ in range(6)]
    return out, False


def run_case(case) -> Result:
    res = Result()
    o = call(build, case)
    if not o.ok:
        from vf.monitors import MonitorViolation

        if isinstance(o.exc, MonitorViolation):
            exc_violation(res, o, "building the operand")
        else:
            res.status, res.note = "refused", f"{o.exc_type}: {o.exc} @ {o.where()}"
        return res
    rng, c, domains, mono = o.value
    nrng = np_rng(rng)
    ids = sorted(domains)
    res.features |= structs.circuit_features(c)
    if c.operation is not None:
        res.features.add("operand:product")
    srs = ["sum-product", "complex-lse-sum"] + (["lse-sum"] if mono else [])
    sr = rng.choice(srs)
    res.features.add("sr:" + sr)
    zs, exhaustive = subsets(rng, ids)
    if exhaustive:
        res.features.add("Z:all-subsets")
    # the symbolic results (built once, compiled under each flag combination)
    derived = []
    for z in zs:
        d = call(SF.integrate, c, Scope(z))
        if not d.ok:
            exc_violation(res, d, f"integrate(c, {z}) on a smooth decomposable circuit")
            return res
        derived.append((z, d.value))
    nested = []
    if len(ids) >= 2:
        for _ in range(2):
            z = pipes.random_subset(rng, ids)
            if len(z) < 2:
                continue
            z1 = pipes.random_subset(rng, z, proper=True)
            z2 = [v for v in z if v not in z1]
            if not z1 or not z2:
                continue
            d = call(lambda: SF.integrate(SF.integrate(c, Scope(z1)), Scope(z2)))
            if not d.ok:
                exc_violation(res, d, f"integrate(integrate(c, {z1}), {z2})")
                return res
            nested.append((z, z1, z2, d.value))
            res.features.add("nested")
    res.sig = c01.struct_sig(c) + ":" + short_hash(zs)

    if case["kind"] == "square-flat":
        res.features.add("square-flat")
    flags = C.FLAGS if case["k"] % 2 == 0 or case["kind"] == "square-flat" else [C.FLAGS[rng.randrange(4)], C.FLAGS[3]]
    vseed = rng.getrandbits(32)
    vcls = rng.choice(["init", "normal"]) if not mono else rng.choice(["init", "posonly"])
    ypool = gen.random_inputs(nrng, domains, 6)
    for fold, opt in flags:
        tag = C.flag_name(fold, opt)
        comp = C.new_compiler(sr, fold, opt)
        oc = call(comp.compile, c)
        if not oc.ok:
            exc_violation(res, oc, f"compile operand [{tag}]")
            continue
        if vcls != "init":
            tie.revalue(comp, c, np.random.default_rng(vseed), vcls)
        if sr == "lse-sum" and not all(C.monotone_ok(x, comp) for x in tie.pipeline_circuits(c)):
            continue
        leaf = tie.leaf_reader(comp)
        for z, d in derived + [(zz, dd) for zz, _, _, dd in nested]:
            full = len(z) == len(ids)
            res.features.add("Z:full" if full else "Z:partial")
            if any(domains[v][0] == "cont" for v in z):
                res.features.add("Z:continuous")
            bm = brute.marginal(c, leaf, domains, ypool, z)
            if bm is None:
                res.count("marginals_not_decided_grid_too_large")
                continue
            val, sca, B = bm
            od = call(comp.compile, d)
            if not od.ok:
                exc_violation(res, od, f"compile integrate(c,{z}) [{tag}]")
                continue
            rdom = {v: dd for v, dd in domains.items() if v not in z}
            if full:
                X = None
                val, sca = val[0], sca[0]
            else:
                X = ypool[:B].copy()
                # integrated columns must not be read: poison them
                for v in z:
                    if v < X.shape[1]:
                        X[:, v] = 1.0e3 if X.dtype.kind == "f" else gen.GARBAGE_DISC
                ncols = max(rdom) + 1
                X = X[:, :ncols] if rng.random() < 0.5 else X
            oe = call(C.evaluate, od.value, X)
            if not oe.ok:
                exc_violation(res, oe, f"evaluating integrate(c,{z}) [{tag}]")
                continue
            got = oe.value
            if got.shape != val.shape:
                res.violate("output-shape", f"[{tag}] integrate(c,{z}) output shape {got.shape}, expected {val.shape}")
                continue
            tol = "quad" if any(domains[v][0] == "cont" for v in z) else "exact"
            ok, idx, msg = compare_semiring(got, val, sca, sr, tol)
            res.count("marginals_compared", int(np.prod(got.shape)))
            if not ok:
                res.violate("marginal-mismatch", f"[{tag} {vcls}] integrate(c, Z={z}) at {idx}: {msg} (brute force over the reference of c)", Z=z)
    return res
