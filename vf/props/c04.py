"""C04 -- multiply returns the pointwise product or refuses.

Monitor: whenever the real `multiply` returns, the compiled result is compared at every input
with the product of the *reference evaluations of the operands* (output (i,j) = output i of c1
times output j of c2, units in Kronecker order).  Outcome classes are recorded per case:
returned-correct / refused(type) / returned-wrong / returned-uncompilable.
"""
from __future__ import annotations

import numpy as np

import cirkit.symbolic.functional as SF

from vf import cc as C, gen, pipes, structs, tie
from vf.common import Result, call, case_rng, exc_violation, np_rng, short_hash
from vf.props import c01

ID = "C04"
RULE = (
    "type-aligned compatible pairs / triples from a shared random vtree (vf.gen.gen_compatible_pair: "
    "independent unit counts 1-3, sum arities 1-4 incl. mixing layers, Hadamard / Kronecker products, "
    "multi-output) for every input family with a product rule (embedding, categorical probs x logits, "
    "Gaussian +- log-partition, polynomial), squares multiply(c,c), chains of 3, evidence-conditioned "
    "operands, plus unaligned / incompatible pairs (expected refusals); 4 flags; distinct = pair of "
    "structure signatures; non-trivial = multiply returned a circuit"
    " Also: twin pairs (same architecture, independent tensors), pair-arities (dense sums of arity 1-3 over shuffled product inputs and leaf mixtures in both operands);"
)
EXHAUSTIVE_SUBSPACES = ["all complete assignments for discrete pairs with <= 128 assignments", "all 4 (fold, optimize) combinations (even-numbered cases)"]
ASSUMPTIONS = ["reference interpreter vf/ref.py evaluates the operands", "any exception type counts as a refusal (the property says 'or raises')"]
FLOOR = {
    "in:embedding": 1, "in:categorical-probs": 1, "in:categorical-logits": 1, "in:gaussian": 1, "in:gaussian-lp": 1, "in:polynomial": 1,
    "sum:arity>1-both": 1, "prod:kronecker": 1, "square": 1, "chain3": 1, "evidence-operands": 1, "O1*O2>1": 1,
    "twin": 1, "outcome:returned": 20, "outcome:refused": 1, "values_compared": 500,
}

KINDS = ["pair", "pair", "pair-onekind", "square", "chain3", "evidence", "unaligned", "incompatible", "pair-sparse", "pair-mixing", "twin", "pair-arities", "pair-arities", "square-wide", "square-wide", "pair-kron", "pair-kron", "evidence-wide", "evidence-wide"]


def plan(tier, seed):
    n = 22 if tier == "quick" else 1440
    return [{"kind": k, "k": i, "seed": seed} for i in range(n) for k in KINDS]


def _cfg(rng, kinds, **over):
    d = dict(nvars=rng.randint(1, 4), structured=True, max_reps=rng.choice([1, 2, 2]), out_units=rng.choice([1, 1, 2]),
             outputs=rng.choice([1, 1, 2]), share_prob=0.2, max_units=3, kinds=tuple(kinds), mixing_prob=0.25)
    d.update(over)
    return gen.GenCfg(**d)


def build(case):
    rng = case_rng(ID, case["seed"], (case["kind"], case["k"]))
    kind = case["kind"]
    feats = set()
    kinds = pipes.MULTIPLIABLE
    if kind == "pair-onekind":
        kinds = (rng.choice(pipes.MULTIPLIABLE),)
    over = {}
    if kind == "pair-sparse":
        over["id_mode"] = "sparse"
    if kind == "pair-arities":
        # many dense sum layers with arities 1-3 in both operands: the products' weights are index-over-
        # Kronecker parameters of equal shapes but different column permutations
        over.update(max_reps=3, max_units=2, nvars=rng.randint(2, 4), prod_kinds=("hadamard",), mixing_prob=0.0, outputs=1, share_prob=0.0, leaf_sum_prob=0.9, leaf_mix_prob=1.0)
    if kind == "square-wide":
        # squares of circuits with several outputs, sums of arity 2-3 and >= 2 units: mirrored layer
        # pairs (a, b) / (b, a) of distinct layers arise
        over.update(max_reps=3, outputs=2, out_units=2, mixing_prob=0.0, leaf_sum_prob=0.6, leaf_mix_prob=0.8)
    if kind == "pair-kron":
        # binary Kronecker products in both operands with 1-3 units each (different unit counts K1 != K2 >= 2 included)
        over.update(prod_kinds=("kronecker",), kron_max_units=3, max_parts=2, nvars=rng.randint(2, 3), shuffle_inputs_prob=0.0, mixing_prob=0.0)
    if kind == "evidence-wide":
        over.update(max_units=3, out_units=2, nvars=rng.randint(2, 4))
    if kind == "pair-mixing":
        over.update(mixing_prob=0.9, max_reps=3, prod_kinds=("hadamard",))
    cfg1 = _cfg(rng, kinds, **over)
    cfg2 = _cfg(rng, kinds, **{**over, "nvars": cfg1.nvars})
    if kind in ("square", "square-wide"):
        c, meta = gen.gen_circuit(rng, cfg1)
        ops = [c, c]
        feats.add("square")
    elif kind == "chain3":
        ops, meta = gen.gen_compatible_pair(rng, cfg1, cfg2, n=3)
        feats.add("chain3")
    elif kind == "unaligned":
        # same vtree but independent layer-type decisions: often refused (no rule for the type pair)
        ids = gen.choose_var_ids(rng, cfg1.nvars, cfg1.id_mode)
        reg = gen.gen_region(rng, ids, memo={})
        ops, bs = [], []
        vk = None
        for cfg in (cfg1, cfg2):
            b = gen.CircuitBuilder(rng, cfg)
            if vk:
                b.var_kind = dict(vk)
            ops.append(b.finish(list(dict.fromkeys(b.get(reg, cfg.out_units) for _ in range(cfg.outputs)))))
            vk = dict(b.var_kind)
            bs.append(b)
        meta = {"domains": {v: bs[0].domain(v) for v in sorted(ops[0].scope)}}
    elif kind == "incompatible":
        c1, meta = gen.gen_circuit(rng, _cfg(rng, ("cat",), nvars=rng.randint(3, 5), structured=False, multi_part_prob=0.5))
        c2, _ = gen.gen_circuit(rng, _cfg(rng, ("cat",), nvars=len(meta["domains"]), structured=rng.random() < 0.5))
        ops = [c1, c2]
    elif kind == "twin":
        ops, meta = gen.gen_twin_pair(rng, cfg1, n=rng.choice([2, 2, 3]))
        feats.add("twin")
    else:
        ops, meta = gen.gen_compatible_pair(rng, cfg1, cfg2)
    domains = dict(meta["domains"])
    if kind in ("evidence", "evidence-wide"):
        ids = sorted(domains)
        z = pipes.random_subset(rng, ids, proper=len(ids) > 1)
        if len(z) == len(ids):
            z = z[:-1] or z
        ops = [SF.evidence(ops[0], pipes.random_obs(rng, domains, z)), SF.evidence(ops[1], pipes.random_obs(rng, domains, z))]
        feats.add("evidence-operands")
    return rng, ops, domains, feats


def expected_product(r1, r2):
    # r: (B, O, K) -> (B, O1*O2, K1*K2), output (i,j) -> i*O2+j, unit (k1,k2) -> k1*K2+k2
    e = r1[:, :, None, :, None] * r2[:, None, :, None, :]
    return e.reshape(r1.shape[0], r1.shape[1] * r2.shape[1], r1.shape[2] * r2.shape[2])


def run_case(case) -> Result:
    res = Result()
    built = C.build_or_refuse(res, lambda: build(case))
    if built is None:
        return res
    rng, ops, domains, feats = built
    nrng = np_rng(rng)
    res.features |= feats
    for c in ops:
        res.features |= structs.circuit_features(c)
    if all(any(l.arity > 1 for l in c.sum_layers) for c in ops):
        res.features.add("sum:arity>1-both")
    if len(ops[0].outputs) * len(ops[1].outputs) > 1:
        res.features.add("O1*O2>1")
    res.sig = short_hash([c01.struct_sig(c) for c in ops])

    # the real operator (left-to-right chain)
    def mul():
        p = SF.multiply(ops[0], ops[1])
        for c in ops[2:]:
            p = SF.multiply(p, c)
        return p

    o = call(mul)
    if not o.ok:
        from vf.monitors import MonitorViolation

        if isinstance(o.exc, MonitorViolation):
            exc_violation(res, o, "multiply")
            return res
        res.status = "refused"
        res.features.add("outcome:refused")
        res.features.add("refused:" + o.exc_type)
        res.note = f"{o.exc_type}: {str(o.exc)[:200]} @ {o.where()}"
        res.nontrivial = False
        return res
    p = o.value
    res.features.add("outcome:returned")
    cx = "p:ConjugateParameter" in res.features
    sr = rng.choice(["sum-product", "sum-product", "complex-lse-sum"])
    res.features.add("sr:" + sr)
    pdom = pipes.remaining_domains(p, domains)
    if not pdom:
        res.status, res.note = "skip", "empty scope after evidence"
        return res
    pool = C.input_pool(nrng, pdom)
    if pool.shape[1] < max(domains) + 1 and rng.random() < 0.5:
        pad = np.full((pool.shape[0], max(domains) + 1 - pool.shape[1]), 5, dtype=pool.dtype)
        pool = np.concatenate([pool, pad], axis=1)
    flags = C.FLAGS if case["k"] % 2 == 0 else [C.FLAGS[rng.randrange(4)], C.FLAGS[3]]
    vseed, vcls = rng.getrandbits(32), rng.choice(["init", "normal", "normal"])
    tol = "fft" if "in:polynomial" in res.features else "exact"
    for fold, opt in flags:
        tag = C.flag_name(fold, opt)
        comp = C.new_compiler(sr, fold, opt)
        cp = call(comp.compile, p)
        if not cp.ok:
            exc_violation(res, cp, f"compile of the circuit returned by multiply [{tag}]", "returned-uncompilable")
            continue
        if vcls != "init":
            tie.revalue(comp, p, np.random.default_rng(vseed), vcls)
        rs, as_ = [], []
        for c in ops:
            r, a = C.reference(c, comp, pool)
            rs.append(r)
            as_.append(a)
        e, s = rs[0], as_[0]
        for r, a in zip(rs[1:], as_[1:]):
            e, s = expected_product(e, r), expected_product(s, a)
        if not np.all(np.isfinite(s)):
            continue
        C.check_expected(res, cp.value, pool, e, s, sr, f"{tag} {vcls} multiply({case['kind']})", tol, vclass="product-mismatch")
    return res
