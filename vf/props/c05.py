"""C05 -- differentiate returns the partial derivatives in variable-id order, followed by c.

Monitor: a function-level oracle independent of the operator's structure walking.  Along each
variable the reference circuit is a univariate polynomial of bounded degree: it is fitted exactly
from d+3 evaluations of the *reference* (Vandermonde solve, residual checked), differentiated with
numpy.polynomial.polyder and evaluated.  For order 1 a second oracle is torch.autograd of the
compiled operand w.r.t. its input batch.  The order is decided by matching each output against
each variable's true derivative (the witness names the permutation observed).
"""
from __future__ import annotations

import itertools

import numpy as np
import torch

import cirkit.symbolic.functional as SF
from cirkit.symbolic import layers as L

from vf import cc as C, gen, pipes, ref, structs, tie
from vf.common import Result, call, case_rng, close_lin, compare_semiring, exc_violation, np_rng, short_hash, to_linear
from vf.props import c01

ID = "C05"
RULE = (
    "smooth decomposable polynomial-input circuits (random vtrees / multi-partition regions, product "
    "arity 2-3 with inputs in random order, sum arity 1-4, Hadamard and Kronecker, multi-output), "
    "contiguous and sparse / hash-unsorted variable ids (e.g. {8,1,2}), orders k in 1..4 (incl. k > "
    "degree), products of two circuits as operands; 4 flags; sum-product and complex-lse-sum; "
    "distinct = (structure signature, ids, order); non-trivial = >= 2 variables"
)
EXHAUSTIVE_SUBSPACES = ["all 4 (fold, optimize) combinations (even cases)", "every output block x every variable"]
ASSUMPTIONS = [
    "reference interpreter vf/ref.py", "degree bound along v = max degree of the polynomial layers over v in c (validated by the fit residual)",
    "every output layer of c has the full scope (outputs over sub-scopes are not generated)",
]
FLOOR = {"ids:iter-unsorted": 1, "prod:arity>=3": 1, "order>=2": 1, "order>degree": 1, "multi-output": 1, "prod:kronecker": 1,
         "operand:product": 1, "derivatives_compared": 300, "autograd_compared": 50, "pipeline-repeat-orders": 1}


def plan(tier, seed):
    n = 36 if tier == "quick" else 3520
    cases = []
    for k in range(n):
        for kind in ("contig", "sparse", "sparse", "random-ids", "product"):
            cases.append({"kind": kind, "k": k, "seed": seed})
    return cases


def build(case):
    rng = case_rng(ID, case["seed"], (case["kind"], case["k"]))
    kind = case["kind"]
    idm = {"contig": "contiguous", "sparse": "sparse", "random-ids": "random", "product": rng.choice(["contiguous", "sparse"])}[kind]
    cfg = gen.GenCfg(nvars=rng.randint(1, 5), kinds=("poly",), id_mode=idm, structured=rng.random() < 0.6, multi_part_prob=0.4,
                     max_reps=rng.choice([1, 2]), out_units=rng.choice([1, 1, 2]), outputs=rng.choice([1, 1, 2]), share_prob=0.2,
                     max_units=2, max_parts=3)
    if kind == "product":
        cfg.structured = True
        cfg.nvars = rng.randint(1, 3)
        cfg2 = gen.GenCfg(**{**cfg.__dict__})
        (c1, c2), meta = gen.gen_compatible_pair(rng, cfg, cfg2)
        c = SF.multiply(c1, c2)
    else:
        c, meta = gen.gen_circuit(rng, cfg)
    order = rng.choice([1, 1, 2, 2, 3, 4])
    return rng, c, meta["domains"], order


def degree_along(c, v) -> int:
    d = 0
    for sl in c.layers:
        if isinstance(sl, L.PolynomialLayer) and tuple(sl.scope) == (v,):
            d = max(d, sl.degree)
    return d


def true_derivatives(c, leaf, X, ids, order):
    """(B, n, O, K): k-th partial derivative of the reference of c w.r.t. each variable (sorted),
    by exact polynomial fit along that variable; also returns an abs-scale."""
    B = X.shape[0]
    out, sca = [], []
    for v in ids:
        d = degree_along(c, v)
        npts = d + 3
        ts = np.cos(np.pi * (np.arange(npts) + 0.5) / npts) * 2.0  # Chebyshev nodes in [-2, 2]
        Xb = np.repeat(X, npts, axis=0)
        Xb[:, v] = np.tile(ts, B)
        r = ref.eval_circuit(c, leaf, Xb).reshape(B, npts, -1)  # (B, npts, O*K)
        a = ref.eval_circuit(c, leaf, Xb, absmode=True).reshape(B, npts, -1)
        V = np.vander(ts, d + 1, increasing=True)
        dv = np.zeros((B, r.shape[2]), dtype=r.dtype)
        for b in range(B):
            coef, *_ = np.linalg.lstsq(V, r[b], rcond=None)
            resid = np.abs(V @ coef - r[b]).max()
            if resid > 1e-8 * (np.abs(a[b]).max() + 1e-12) + 1e-10:
                raise AssertionError(f"degree bound {d} along x{v} does not fit the reference (residual {resid})")
            for j in range(coef.shape[1]):
                dc = np.polynomial.polynomial.polyder(coef[:, j], m=order)
                dv[b, j] = np.polynomial.polynomial.polyval(X[b, v], dc)
        out.append(dv)
        # scale: magnitude of the terms of the derivative ~ k! * C(d,k) * abs-scale / |t|^k ; use a generous bound
        sca.append(np.abs(a).max(axis=1) * max(1.0, float(np.prod(np.arange(max(d - order, 0) + 1, d + 1)))) + np.abs(dv))
    O, K = len(c.outputs), c.outputs[0].num_output_units
    D = np.stack(out, axis=1).reshape(B, len(ids), O, K)
    S = np.stack(sca, axis=1).reshape(B, len(ids), O, K)
    return D, S


def run_case(case) -> Result:
    res = Result()
    built = C.build_or_refuse(res, lambda: build(case))
    if built is None:
        return res
    rng, c, domains, order = built
    nrng = np_rng(rng)
    ids = sorted(domains)
    n = len(ids)
    res.features |= structs.circuit_features(c)
    if c.operation is not None:
        res.features.add("operand:product")
    if order >= 2:
        res.features.add("order>=2")
    if any(order > degree_along(c, v) for v in ids):
        res.features.add("order>degree")
    res.sig = c01.struct_sig(c) + f":{ids}:{order}"
    res.nontrivial = n >= 2
    o = call(SF.differentiate, c, order=order)
    if not o.ok:
        exc_violation(res, o, f"differentiate(c, order={order}) on a smooth decomposable polynomial circuit")
        return res
    d = o.value
    O, K = len(c.outputs), c.outputs[0].num_output_units
    if len(d.outputs) != O * (n + 1):
        res.violate("wrong-num-outputs", f"{len(d.outputs)} outputs, expected {O}*({n}+1)")
        return res
    sr = rng.choice(["sum-product", "sum-product", "complex-lse-sum"])
    res.features.add("sr:" + sr)
    X = gen.random_inputs(nrng, domains, 5)
    X[:, ids] = nrng.uniform(-1.5, 1.5, size=(X.shape[0], n))
    flags = C.FLAGS if case["k"] % 2 == 0 else [C.FLAGS[rng.randrange(4)], C.FLAGS[3]]
    vseed, vcls = rng.getrandbits(32), rng.choice(["init", "normal"])
    tol = "fft" if c.operation is not None else "exact"
    for fold, opt in flags:
        tag = C.flag_name(fold, opt)
        comp = C.new_compiler(sr, fold, opt)
        cd = C.compile_in(res, comp, d, f"differentiate result [{tag}]")
        if cd is None:
            continue
        if vcls != "init":
            tie.revalue(comp, d, np.random.default_rng(vseed), vcls)
        leaf = tie.leaf_reader(comp)
        D, S = true_derivatives(c, leaf, X, ids, order)
        r0, a0 = C.reference(c, comp, X)
        oe = call(C.evaluate, cd, X)
        if not oe.ok:
            exc_violation(res, oe, f"evaluating differentiate(c,{order}) [{tag}]")
            continue
        got = oe.value
        if got.shape != (X.shape[0], O * (n + 1), K):
            res.violate("output-shape", f"[{tag}] shape {got.shape}, expected {(X.shape[0], O * (n + 1), K)}")
            continue
        glin = to_linear(got, sr).reshape(X.shape[0], O, n + 1, K)
        # last output of each block = c itself
        ok, idx, msg = close_lin(glin[:, :, n, :], r0, a0, tol)
        if not ok:
            res.violate("trailing-copy-mismatch", f"[{tag}] last output of a block is not c: at {idx}: {msg}")
        # derivative outputs in increasing variable order
        for oi in range(O):
            blocks = glin[:, oi, :n, :]  # (B, n, K)
            want = D[:, :, oi, :]
            scale = S[:, :, oi, :]
            ok, idx, msg = close_lin(blocks, want, scale, "fft" if tol == "fft" else "exact")
            res.count("derivatives_compared", int(want.size))
            if not ok and sr == "complex-lse-sum":
                bad = ~(np.abs(blocks - want) <= 1e-7 * np.maximum(np.abs(scale), np.abs(want)) + 1e-10)
                if np.all(np.isnan(blocks[bad]) & (want[bad] == 0)):
                    res.violate("nan-at-exact-zero", f"[{tag}] order={order} ids={ids} output block {oi}: NAN-AT-EXACT-ZERO (complex-lse-sum) at {idx}: {msg}")
                    break
            if not ok:
                # does some permutation of the variables explain it?
                perm_found = None
                if n <= 6:
                    for perm in itertools.permutations(range(n)):
                        if perm == tuple(range(n)):
                            continue
                        ok2, _, _ = close_lin(blocks, want[:, list(perm), :], scale[:, list(perm), :], "fft" if tol == "fft" else "exact")
                        if ok2:
                            perm_found = [ids[p] for p in perm]
                            break
                if perm_found is not None:
                    res.violate("derivative-order", f"[{tag}] order={order} ids={ids}: output block {oi} holds the derivatives in variable order {perm_found} instead of {ids}", ids=ids)
                else:
                    res.violate("derivative-value", f"[{tag}] order={order} ids={ids} output block {oi}: at (b,var,k)={idx}: {msg}")
                break
        # second oracle for order 1: autograd of the compiled operand w.r.t. its input
        if order == 1 and sr == "sum-product":
            cc0 = comp.get_compiled_circuit(c)
            xt = torch.from_numpy(X.copy()).requires_grad_(True)
            y = cc0(xt)
            for oi in range(O):
                for k in range(K):
                    (g,) = torch.autograd.grad(y[:, oi, k].sum(), xt, retain_graph=True)
                    gnp = g.detach().numpy()[:, ids]  # (B, n)
                    ok, idx, msg = close_lin(glin[:, oi, :n, k], gnp, S[:, :, oi, k], tol)
                    res.count("autograd_compared", int(gnp.size))
                    if not ok:
                        res.violate("derivative-vs-autograd", f"[{tag}] output {oi} unit {k}: at {idx}: {msg}")
                        break
    if not res.violations and case["k"] % 2 == 0:
        pipeline_level(res, rng, c, domains, ids, X)
    return res


def pipeline_level(res: Result, rng, c, domains, ids, X):
    """The same property through the pipeline interface: differentiating one compiled circuit
    several times with different orders in one context must give each order's derivatives."""
    import cirkit.pipeline as PL

    orders = [rng.choice([1, 2, 3]), rng.choice([1, 2, 3]), rng.choice([1, 2])]
    ctx = PL.PipelineContext(backend="torch", semiring="sum-product", fold=rng.random() < 0.5, optimize=rng.random() < 0.5)
    O, K, n = len(c.outputs), c.outputs[0].num_output_units, len(ids)
    with ctx:
        cc0 = ctx.compile(c)
        leaf = tie.leaf_reader(ctx._compiler)  # pylint: disable=protected-access
        for j, order in enumerate(orders):
            o = call(lambda: PL.differentiate(cc0, order=order) if j % 2 else ctx.differentiate(cc0, order=order))
            if not o.ok:
                exc_violation(res, o, f"ctx.differentiate(order={order}) (call #{j + 1} in one context, orders {orders})")
                return
            got = call(C.evaluate, o.value, X)
            if not got.ok or got.value.shape != (X.shape[0], O * (n + 1), K):
                res.violate("pipeline-differentiate", f"call #{j + 1} with order={order} (orders {orders}): bad output {got.exc or got.value.shape}")
                return
            D, S = true_derivatives(c, leaf, X, ids, order)
            g = got.value.reshape(X.shape[0], O, n + 1, K)[:, :, :n, :]
            ok, idx, msg = close_lin(np.moveaxis(g, 1, 2), D, S, "fft" if c.operation is not None else "exact")
            res.count("derivatives_compared", int(D.size))
            res.features.add("pipeline-repeat-orders")
            if not ok:
                res.violate("pipeline-differentiate", f"ctx.differentiate call #{j + 1} with order={order} after orders {orders[:j]} does not return the order-{order} derivatives: at {idx}: {msg}")
                return
