"""C06 -- evidence and concatenate implement conditioning and output stacking.

Monitor: compiled evidence(c, obs) against the reference of c with the observed columns
overwritten (and against the separately compiled operand), scope equality, garbage in the observed
columns; compiled concatenate against its operands block by block, in order.
"""
from __future__ import annotations

import itertools

import numpy as np

import cirkit.symbolic.functional as SF

from vf import cc as C, gen, pipes, structs, tie
from vf.common import Result, call, case_rng, exc_violation, np_rng, short_hash
from vf.props import c01

ID = "C06"
RULE = (
    "random circuits over every input family (categorical probs/logits, binomial, embedding, Gaussian "
    "+- log-partition, polynomial; homogeneous families so that evidence layers fold together, and "
    "heterogeneous ones); for n <= 4 variables ALL non-empty observation subsets with random in-domain "
    "values (partial and complete), random subsets above; evidence followed by integrate / conjugate; "
    "concatenate of 1-4 operands with different scopes incl. the same operand twice; 4 flags; "
    "sum-product / lse-sum / complex-lse-sum; batch sizes incl. 1; distinct = (structure, observed set)"
    " Also: integer and float observations side by side, two rounds on the same compiled objects (in-place update, eval() mode before the first or the second round);"
)
EXHAUSTIVE_SUBSPACES = ["all non-empty observation subsets for circuits with <= 4 variables", "all 4 (fold, optimize) combinations (even cases)"]
ASSUMPTIONS = ["reference interpreter vf/ref.py", "observations are in-domain values of the observed variable"]
FLOOR = {"cc:fold>1:TorchEvidenceLayer": 1, "obs:partial": 1, "obs:complete": 1, "concat>=3": 1, "concat:same-twice": 1,
         "in:evidence:CategoricalLayer": 1, "in:evidence:GaussianLayer": 1, "in:evidence:PolynomialLayer": 1,
         "in:evidence:EmbeddingLayer": 1, "in:evidence:BinomialLayer": 1, "then:integrate": 1, "values_compared": 500, "second-round-eval-mode": 1, "eval-mode-before-update": 1}


def plan(tier, seed):
    n = 28 if tier == "quick" else 1280
    cases = []
    for k in range(n):
        for kind in ("evi-homog", "evi-homog", "evi-mixed", "evi-then", "concat"):
            cases.append({"kind": kind, "k": k, "seed": seed})
    return cases


ALL_KINDS = ("cat", "binomial", "embedding", "gaussian", "gaussian_lp", "poly")


def run_case(case) -> Result:
    res = Result()
    rng = case_rng(ID, case["seed"], (case["kind"], case["k"]))
    nrng = np_rng(rng)
    kind = case["kind"]
    if kind == "concat":
        return run_concat(res, rng, nrng, case)
    homog = kind == "evi-homog"
    kinds = (rng.choice(ALL_KINDS),) if homog else (ALL_KINDS if kind == "evi-mixed" else pipes.INTEGRABLE)
    mono = all(k in ("cat", "binomial", "gaussian", "gaussian_lp") for k in kinds) and rng.random() < 0.5
    cfg = gen.GenCfg(nvars=rng.randint(2, 5) if homog else rng.randint(1, 4), kinds=tuple(kinds), same_kind_all_vars=homog,
                     structured=rng.random() < 0.6, max_reps=rng.choice([1, 2]), out_units=rng.choice([1, 2]), outputs=rng.choice([1, 1, 2]),
                     share_prob=0.1 if homog else 0.3, max_units=2 if homog else 3, leaf_sum_prob=0.1 if homog else 0.3,
                     id_mode=rng.choice(["contiguous", "contiguous", "sparse"]), monotonic=mono)
    c, meta = gen.gen_circuit(rng, cfg)
    domains = meta["domains"]
    ids = sorted(domains)
    res.features |= structs.circuit_features(c)
    sr = rng.choice(["sum-product", "complex-lse-sum"] + (["lse-sum", "lse-sum"] if mono else []))
    res.features.add("sr:" + sr)
    if len(ids) <= 4:
        subsets = [list(s) for r in range(1, len(ids) + 1) for s in itertools.combinations(ids, r)]
        res.features.add("obs:all-subsets")
    else:
        subsets = [pipes.random_subset(rng, ids) for _ in range(6)]
    if len(subsets) > 8:
        rng.shuffle(subsets)
        subsets = subsets[:8] if case["k"] % 3 else subsets
    derived = []
    for z in subsets:
        obs = pipes.random_obs(rng, domains, z)
        o = call(SF.evidence, c, obs)
        if not o.ok:
            exc_violation(res, o, f"evidence(c, {obs})")
            return res
        e = o.value
        res.features |= {f for f in structs.circuit_features(e) if f.startswith("in:evidence")}
        want_scope = set(ids) - set(z)
        if set(structs.circuit_scope(e)) != want_scope or set(e.scope) != want_scope:
            res.violate("wrong-scope", f"evidence over {z}: result scope {sorted(e.scope)}, expected {sorted(want_scope)}")
        nxt = None
        if kind == "evi-then" and want_scope:
            z2 = pipes.random_subset(rng, sorted(want_scope))
            o2 = call(SF.integrate, e, __import__("cirkit.utils.scope", fromlist=["Scope"]).Scope(z2))
            if o2.ok:
                nxt = (z2, o2.value)
                res.features.add("then:integrate")
            else:
                exc_violation(res, o2, f"integrate(evidence(c,{z}), {z2})")
        derived.append((z, obs, e, nxt))
        res.features.add("obs:complete" if not want_scope else "obs:partial")
    res.sig = c01.struct_sig(c) + ":" + short_hash([d[0] for d in derived])
    flags = C.FLAGS if case["k"] % 2 == 0 else [C.FLAGS[1], C.FLAGS[3]]
    vseed, vcls = rng.getrandbits(32), (rng.choice(["init", "normal"]) if not mono else rng.choice(["init", "posonly"]))
    pool = gen.random_inputs(nrng, domains, 5)
    eval_first = case["k"] % 3 == 1
    for fold, opt in flags:
      comp = C.new_compiler(sr, fold, opt)
      if C.compile_in(res, comp, c, f"operand [{C.flag_name(fold, opt)}]") is None:
          continue
      # two rounds on the same compiled objects: the second one in eval() mode after an in-place
      # update of the operand (caches keyed on the constant observation must not survive it)
      for rnd in range(2):
        tag = C.flag_name(fold, opt) + (" round2-eval-mode" if rnd else "")
        if rnd:
            res.features.add("second-round-eval-mode")
            for _, _, e_, _ in derived:
                if comp.is_compiled(e_) and not eval_first:  # (already in eval mode otherwise: no second mode switch)
                    comp.get_compiled_circuit(e_).eval()
            tie.revalue(comp, c, np.random.default_rng(vseed + 17), "posonly" if mono else "normal")
        elif vcls != "init":
            tie.revalue(comp, c, np.random.default_rng(vseed), vcls)
        if sr == "lse-sum" and not C.monotone_ok(c, comp):
            continue
        for z, obs, e, nxt in derived:
              ce = C.compile_in(res, comp, e, f"evidence over {z} [{tag}]")
              if ce is None:
                  continue
              if eval_first and rnd == 0:  # inference mode from the first evaluation on (one mode switch only); round 2 follows an in-place update
                  ce.eval()
                  res.features.add("eval-mode-before-update")
              res.features |= {f for f in structs.compiled_features(ce) if "Evidence" in f}
              Xo = pool.copy().astype(np.float64 if any(isinstance(v, float) for v in obs.values()) or pool.dtype.kind == "f" else pool.dtype)
              for v, val in obs.items():
                  Xo[:, v] = val
              r, a = C.reference(c, comp, Xo)
              if not np.all(np.isfinite(a)):
                  continue
              full = len(z) == len(ids)
              if full:
                  Xe, r, a = None, r[0], a[0]
              else:
                  Xe = pool.copy()
                  for v in z:  # observed columns must not be read any more
                      Xe[:, v] = 1.0e3 if Xe.dtype.kind == "f" else gen.GARBAGE_DISC
              for B in ([None] if full else [Xe.shape[0], 1]):
                  xe = Xe if B is None else Xe[:B]
                  rr = r if B is None or full else r[:B]
                  aa = a if B is None or full else a[:B]
                  C.check_expected(res, ce, xe, rr, aa, sr, f"{tag} {vcls} evidence{obs} B={B}", vclass="evidence-mismatch", obs=str(obs))
              if nxt is not None:
                  from vf import brute

                  z2, ei = nxt
                  bm = brute.marginal(c, tie.leaf_reader(comp), domains, Xo, z2)
                  ci = C.compile_in(res, comp, ei, f"integrate after evidence [{tag}]")
                  if bm is not None and ci is not None:
                      val, sca, B = bm
                      rest = set(ids) - set(z) - set(z2)
                      if not rest:
                          C.check_expected(res, ci, None, val[0], sca[0], sr, f"{tag} integrate(evidence{obs},{z2})", "quad", vclass="evidence-then-integrate-mismatch")
                      else:
                          Xi = pool[:B].copy()
                          for v in list(z) + list(z2):
                              Xi[:, v] = 1.0e3 if Xi.dtype.kind == "f" else gen.GARBAGE_DISC
                          C.check_expected(res, ci, Xi, val, sca, sr, f"{tag} integrate(evidence{obs},{z2})", "quad", vclass="evidence-then-integrate-mismatch")
    return res


def run_concat(res: Result, rng, nrng, case) -> Result:
    k = rng.randint(1, 4)
    units = rng.choice([1, 2, 3])
    mono = rng.random() < 0.3
    kinds = ("cat", "binomial", "gaussian") if mono else ALL_KINDS
    ops, domains = [], {}
    for i in range(k):
        for _try in range(4):
            cfg = gen.GenCfg(nvars=rng.randint(1, 3), kinds=kinds, out_units=units, outputs=rng.choice([1, 1, 2]), id_mode=rng.choice(["contiguous", "random"]),
                             structured=rng.random() < 0.5, monotonic=mono)
            c, meta = gen.gen_circuit(rng, cfg)
            if all(domains.get(v, d) == d for v, d in meta["domains"].items()):
                domains.update(meta["domains"])
                ops.append(c)
                break
    if not ops:
        res.status = "skip"
        return res
    if len(ops) >= 2 and rng.random() < 0.5:
        ops.insert(rng.randrange(len(ops) + 1), ops[0])
        res.features.add("concat:same-twice")
    if len(ops) >= 3:
        res.features.add("concat>=3")
    for c in ops:
        res.features |= structs.circuit_features(c)
    o = call(SF.concatenate, ops)
    if not o.ok:
        exc_violation(res, o, "concatenate")
        return res
    cat = o.value
    res.sig = short_hash([c01.struct_sig(c) for c in ops])
    if len(cat.outputs) != sum(len(c.outputs) for c in ops):
        res.violate("wrong-num-outputs", f"{len(cat.outputs)} outputs")
        return res
    sr = rng.choice(["sum-product", "complex-lse-sum"] + (["lse-sum"] if mono else []))
    pool = gen.random_inputs(nrng, domains, 5)
    for fold, opt in (C.FLAGS if case["k"] % 2 == 0 else [C.FLAGS[3]]):
        tag = C.flag_name(fold, opt)
        comp = C.new_compiler(sr, fold, opt)
        cc_ = C.compile_in(res, comp, cat, f"concatenate [{tag}]")
        if cc_ is None:
            continue
        if sr == "lse-sum" and not all(C.monotone_ok(c, comp) for c in ops):
            continue
        rs, as_ = zip(*[C.reference(c, comp, pool) for c in ops])
        r, a = np.concatenate(rs, axis=1), np.concatenate(as_, axis=1)
        if not np.all(np.isfinite(a)):
            continue
        for B in (pool.shape[0], 1):
            C.check_expected(res, cc_, pool[:B], r[:B], a[:B], sr, f"{tag} concatenate x{len(ops)} B={B}", vclass="concatenate-mismatch")
        # and against the operands compiled alone in the same context
        got = C.evaluate(cc_, pool)
        off = 0
        for i, c in enumerate(ops):
            alone = C.evaluate(comp.get_compiled_circuit(c), pool)
            blk = got[:, off : off + alone.shape[1], :]
            off += alone.shape[1]
            if not np.allclose(blk, alone, rtol=1e-9, atol=1e-12, equal_nan=True):
                res.violate("concatenate-block-vs-operand", f"[{tag}] output block {i} differs from operand {i} evaluated alone")
            res.count("blocks_compared")
    return res
