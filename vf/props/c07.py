"""C07 -- conjugate computes the complex conjugate (identity on real circuits).

Monitor: compiled conjugate(c) against conj of the reference evaluation of c; on real-parameter
circuits against the compiled operand itself; integral of conjugate(c) vs conj of the integral of
c; double conjugation gives back c.
"""
from __future__ import annotations

import numpy as np

import cirkit.symbolic.functional as SF

from vf import cc as C, gen, pipes, structs, tie
from vf.common import Result, call, case_rng, exc_violation, np_rng, short_hash, to_linear, close_lin
from vf.props import c01

ID = "C07"
RULE = (
    "complex circuits (embedding / polynomial / complex sum weights; complex-lse-sum) and real circuits of "
    "every input family (sum-product / lse-sum / complex-lse-sum), base circuits and operator results "
    "(products of Gaussians with a log-partition, products of categoricals, evidence circuits, integrals, "
    "concatenations, multi-output); conj(c) vs conj(ref c); real => same function as c; integral relation; "
    "conj(conj(c)) vs c; 4 flags; distinct = structure signature x semiring"
    " Also: two rounds (in-place update between them); the same through PipelineContext.conjugate / pipeline.conjugate on operator results;"
)
EXHAUSTIVE_SUBSPACES = ["all complete assignments for discrete circuits with <= 128 assignments", "all 4 (fold, optimize) combinations (even cases)"]
ASSUMPTIONS = ["reference interpreter vf/ref.py"]
FLOOR = {"complex-weights": 1, "in:gaussian-lp": 1, "in:categorical-logits": 1, "operand:product": 1, "operand:evidence": 1,
         "double-conjugation": 1, "integral-relation": 1, "real-circuit": 1, "values_compared": 500, "multi-output": 1, "via-pipeline-context": 1}

KINDS = ["complex", "complex", "real", "real", "real-mono", "product-gauss", "product-gauss", "product", "product", "evidence", "integral", "concat"]


def plan(tier, seed):
    n = 18 if tier == "quick" else 1320
    return [{"kind": k, "k": i, "seed": seed} for i in range(n) for k in KINDS]


def build(case):
    rng = case_rng(ID, case["seed"], (case["kind"], case["k"]))
    kind = case["kind"]
    feats = set()
    mono = False
    if kind == "complex":
        cfg = pipes.base_cfg(rng, ("embedding", "poly", "cat"), complex=True, structured=rng.random() < 0.5)
        c, meta = gen.gen_circuit(rng, cfg)
        feats.add("complex-weights")
        sr = "complex-lse-sum"
        domains = meta["domains"]
    elif kind in ("real", "real-mono"):
        mono = kind == "real-mono"
        kinds = ("cat", "gaussian", "gaussian_lp") if mono else ("cat", "embedding", "gaussian", "gaussian_lp", "poly")
        if rng.random() < 0.15:
            kinds = kinds + ("binomial",)  # no conjugation rule: recorded refusal
        cfg = pipes.base_cfg(rng, kinds, monotonic=mono, structured=rng.random() < 0.5)
        c, meta = gen.gen_circuit(rng, cfg)
        sr = rng.choice(["lse-sum", "sum-product"]) if mono else rng.choice(["sum-product", "complex-lse-sum"])
        domains = meta["domains"]
        feats.add("real-circuit")
    else:
        pk = {"product-gauss": "multiply", "product": rng.choice(["multiply", "square", "mul3"]), "evidence": "evidence", "integral": rng.choice(["integrate", "mul-int"]), "concat": "concat"}[kind]
        over = {"kinds": ("gaussian", "gaussian_lp")} if kind == "product-gauss" else {}
        if kind == "product-gauss":
            cfg1 = pipes.base_cfg(rng, ("gaussian", "gaussian_lp"), structured=True)
            cfg2 = pipes.base_cfg(rng, ("gaussian", "gaussian_lp"), structured=True, nvars=cfg1.nvars, id_mode=cfg1.id_mode)
            (c1, c2), meta = gen.gen_compatible_pair(rng, cfg1, cfg2)
            c = SF.multiply(c1, c2)
            domains = meta["domains"]
        else:
            c, info = pipes.gen_pipeline(rng, pk)
            domains = info["domains"]
        cx = any(n.dtype.name == "COMPLEX" for cc_ in tie.pipeline_circuits(c) for n in tie.circuit_leaves(cc_)[0])
        sr = "complex-lse-sum" if cx or rng.random() < 0.4 else "sum-product"
        feats.add("operand:evidence" if kind == "evidence" else "operand:product" if "product" in kind else "operand:" + kind)
        if not cx:
            feats.add("real-circuit")
        else:
            feats.add("complex-weights")
    return rng, c, domains, sr, mono, feats


def run_case(case) -> Result:
    res = Result()
    built = C.build_or_refuse(res, lambda: build(case))
    if built is None:
        return res
    rng, c, domains, sr, mono, feats = built
    nrng = np_rng(rng)
    res.features |= feats
    for x in tie.pipeline_circuits(c):
        res.features |= structs.circuit_features(x)
    res.features.add("sr:" + sr)
    res.sig = short_hash([c01.struct_sig(x) for x in tie.pipeline_circuits(c)]) + ":" + sr
    o = call(SF.conjugate, c)
    if not o.ok:
        from vf.monitors import MonitorViolation

        if o.exc_type == "OperatorSignatureNotFound" and not isinstance(o.exc, MonitorViolation):
            # no conjugation rule for this layer type (binomial, constant, evidence): an explicit
            # refusal -- the property speaks about the circuit *returned* by conjugate
            res.status, res.nontrivial = "refused", False
            res.features.add("refused:no-conjugation-rule")
            res.note = str(o.exc)
            return res
        exc_violation(res, o, "conjugate(c)")
        return res
    cj = o.value
    o2 = call(SF.conjugate, cj)
    if not o2.ok:
        exc_violation(res, o2, "conjugate(conjugate(c))")
        return res
    cjj = o2.value
    res.features.add("double-conjugation")
    cdom = pipes.remaining_domains(c, domains)
    integ = None
    intdom_ok = cdom and all(isinstance(l, tuple(__import__("cirkit.symbolic.layers", fromlist=["x"]).__dict__[n] for n in ("CategoricalLayer", "EmbeddingLayer", "GaussianLayer", "ConstantLayer"))) for l in c.input_layers)
    if intdom_ok and structs.is_smooth(c) and structs.is_decomposable(c):
        oi = call(lambda: (SF.integrate(c), SF.integrate(cj)))
        if oi.ok:
            integ = oi.value
            res.features.add("integral-relation")
        else:
            exc_violation(res, oi, "integrate(conjugate(c))")
    pool = C.input_pool(nrng, cdom) if cdom else None
    if pool is not None and pool.shape[1] < max(domains) + 1:
        pool = np.concatenate([pool, np.full((pool.shape[0], max(domains) + 1 - pool.shape[1]), 2, dtype=pool.dtype)], axis=1)
    real = "real-circuit" in res.features
    flags = C.FLAGS if case["k"] % 2 == 0 else [C.FLAGS[rng.randrange(4)], C.FLAGS[3]]
    vseed, vcls = rng.getrandbits(32), (rng.choice(["init", "normal"]) if not mono else rng.choice(["init", "posonly"]))
    tol = "fft" if "p:PolynomialProduct" in res.features else "exact"
    for fold, opt in flags:
        comp = C.new_compiler(sr, fold, opt)
        tag0 = C.flag_name(fold, opt)
        ccj = C.compile_in(res, comp, cj, f"conjugate(c) [{tag0}]")
        ccjj = C.compile_in(res, comp, cjj, f"conjugate(conjugate(c)) [{tag0}]")
        if ccj is None or ccjj is None:
            continue
        for rnd in range(2):
            # the second round re-uses the same compiled objects after an in-place update
            tag = tag0 + (" round2" if rnd else "")
            if rnd:
                tie.revalue(comp, c, np.random.default_rng(vseed + 31), "posonly" if mono else "normal")
                res.features.add("second-round")
            elif vcls != "init":
                tie.revalue(comp, c, np.random.default_rng(vseed), vcls)
            if sr == "lse-sum" and not all(C.monotone_ok(x, comp) for x in tie.pipeline_circuits(c)):
                continue
            one_round(res, comp, c, cj, ccj, ccjj, integ, pool, sr, tag, vcls, tol, real)
    # the same through the compiled-circuit interface of a pipeline context (operator results as
    # operands: conjugate of a derived circuit, conjugate of a conjugate)
    import cirkit.pipeline as PL

    fold, opt = flags[-1]
    ctx = PL.PipelineContext(backend="torch", semiring=sr, fold=fold, optimize=opt)
    o = call(ctx.compile, c)
    if o.ok:
        comp = ctx._compiler  # pylint: disable=protected-access
        if sr == "lse-sum" and not all(C.monotone_ok(x, comp) for x in tie.pipeline_circuits(c)):
            return res
        via = rng.choice(["method", "module"])
        o1 = call(ctx.conjugate, o.value) if via == "method" else call(PL.conjugate, o.value, ctx=ctx)
        o2 = call(ctx.conjugate, o1.value) if o1.ok else None
        if not o1.ok or not o2.ok:
            exc_violation(res, o1 if not o1.ok else o2, f"pipeline conjugate [{C.flag_name(fold, opt)}]")
            return res
        res.features.add("via-pipeline-context")
        r, a = C.reference(c, comp, pool)
        if np.all(np.isfinite(a)):
            if pool is None:
                r, a = r[0], a[0]
            tagp = f"{C.flag_name(fold, opt)} pipeline-context ({via})"
            C.check_expected(res, o1.value, pool, np.conj(r), a, sr, f"{tagp} conjugate(c)", tol, vclass="conjugate-mismatch")
            C.check_expected(res, o2.value, pool, r, a, sr, f"{tagp} conjugate(conjugate(c))", tol, vclass="double-conjugate-mismatch")
    return res


def one_round(res, comp, c, cj, ccj, ccjj, integ, pool, sr, tag, vcls, tol, real):
    r, a = C.reference(c, comp, pool)
    if not np.all(np.isfinite(a)):
        return
    if pool is None:
        r, a = r[0], a[0]
    C.check_expected(res, ccj, pool, np.conj(r), a, sr, f"{tag} {vcls} conjugate(c)", tol, vclass="conjugate-mismatch")
    C.check_expected(res, ccjj, pool, r, a, sr, f"{tag} {vcls} conjugate(conjugate(c))", tol, vclass="double-conjugate-mismatch")
    if real:
        cc0 = comp.get_compiled_circuit(c)
        g0, g1 = to_linear(C.evaluate(cc0, pool), sr), to_linear(C.evaluate(ccj, pool), sr)
        ok, idx, msg = close_lin(g1, g0, a, tol)
        res.count("values_compared", int(g0.size))
        if not ok:
            res.violate("real-conjugate-differs-from-operand", f"[{tag} {vcls}] conjugate(c) != c on a real-parameter circuit at {idx}: {msg}")
    if integ is not None:
        ci, cji = integ
        a_ = C.compile_in(res, comp, ci, f"integrate(c) [{tag}]")
        b_ = C.compile_in(res, comp, cji, f"integrate(conjugate(c)) [{tag}]")
        if a_ is not None and b_ is not None:
            ya, yb = call(C.evaluate, a_, None), call(C.evaluate, b_, None)
            if ya.ok and yb.ok:
                za, zb = to_linear(ya.value, sr), to_linear(yb.value, sr)
                ri, ai = C.reference(ci, comp, None)
                ok, idx, msg = close_lin(zb, np.conj(za), ai[0], tol)
                res.count("values_compared", int(za.size))
                if not ok:
                    res.violate("integral-relation", f"[{tag} {vcls}] integral of conjugate(c) != conj(integral of c) at {idx}: {msg}")
            elif not yb.ok:
                exc_violation(res, yb, f"evaluating integrate(conjugate(c)) [{tag}]")
