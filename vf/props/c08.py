"""C08 -- structural-property predicates agree with their definitions.

Monitor: predicate values of the real Circuit / are_compatible / RegionGraph against an independent
set-based model (vf.structs), plus metamorphic monitors: permuting every layer's input list,
renumbering variables bijectively, swapping the two arguments.
"""
from __future__ import annotations

import random

from cirkit.symbolic.circuit import Circuit, are_compatible
from cirkit.symbolic import layers as L
from cirkit.utils.scope import Scope

from vf import gen, structs
from vf.common import Result, call, case_rng, exc_violation, short_hash

ID = "C08"
RULE = (
    "blocks of random symbolic circuits and pairs (vf.gen; structured / unstructured / "
    "non-smooth / non-decomposable / constant factors / sparse ids; compatible pairs from a shared "
    "vtree, pairs over sub-scopes, unrelated pairs); for each: exact predicates vs set model, "
    "soundness of structured-decomposable / compatible, argument symmetry, invariance under "
    "input-list permutation and bijective renumbering; region graphs from RandomBinaryTree / "
    "LinearTree / FullyFactorized with permuted partition inputs; distinct = distinct (scope "
    "factorization multiset, flags) signatures; non-trivial = has a product layer"
)
EXHAUSTIVE_SUBSPACES = ["both argument orders of every pair", "RandomBinaryTree(n<=6, repetitions<=3, seeds 0..4) flag vs model"]
ASSUMPTIONS = ["the set-based model in vf/structs.py is the definition", "omni-compatibility is not part of the property and is not checked"]
FLOOR = {
    "nonsmooth": 1, "nondecomposable": 1, "structured": 1, "not-structured": 1,
    "pair:compatible": 1, "pair:incompatible": 1, "pair:subscope": 1, "permuted": 1, "renumbered>=8": 1,
    "rg:checked": 1, "predicates_compared": 500,
}


def plan(tier, seed):
    n = 80 if tier == "quick" else 6400
    return [{"kind": "block", "block": b, "n": 60, "seed": seed} for b in range(n)] + [
        {"kind": "rg", "block": b, "seed": seed} for b in range(4 if tier == "quick" else 192)
    ]


# -- transformations --------------------------------------------------------------------------
def permuted(rng: random.Random, sc: Circuit) -> Circuit:
    layers = list(sc.layers)
    rng.shuffle(layers)
    in_layers = {}
    for sl in sc.layers:
        ins = list(sc.layer_inputs(sl))
        if ins:
            rng.shuffle(ins)
            in_layers[sl] = ins
    return Circuit(layers, in_layers, list(sc.outputs))


def _clone_input(sl, mapping):
    if isinstance(sl, L.EvidenceLayer):
        return L.EvidenceLayer(_clone_input(sl.layer, mapping), observation=sl.observation)
    kw = dict(sl.config)
    kw.update(sl.params)
    if "scope" in kw:
        kw["scope"] = Scope([mapping[v] for v in sl.scope])
    return type(sl)(**kw)


def renumbered(sc: Circuit, mapping: dict) -> Circuit:
    new = {}
    for sl in sc.layers:
        new[sl] = _clone_input(sl, mapping) if isinstance(sl, L.InputLayer) else sl
    # inner layer objects are scope-agnostic, but one object cannot be in two circuits with
    # different inputs at once for cirkit's dict-keyed graphs -- it can (graphs are per circuit).
    in_layers = {new[sl]: [new[si] for si in sc.layer_inputs(sl)] for sl in sc.layers if sc.layer_inputs(sl)}
    return Circuit([new[sl] for sl in sc.layers], in_layers, [new[o] for o in sc.outputs])


def flags(sc):
    return (sc.is_smooth, sc.is_decomposable, sc.is_structured_decomposable)


def fresh(sc: Circuit) -> Circuit:
    """Same layers / connections in a new Circuit object (predicates are cached properties)."""
    return Circuit(list(sc.layers), {sl: list(sc.layer_inputs(sl)) for sl in sc.layers if sc.layer_inputs(sl)}, list(sc.outputs))


def check_circuit(res: Result, rng, sc, tag):
    ms, md = structs.is_smooth(sc), structs.is_decomposable(sc)
    res.count("predicates_compared", 2)
    if sc.is_smooth != ms:
        res.violate("is_smooth-wrong", f"{tag}: is_smooth={sc.is_smooth}, definition says {ms}")
    if sc.is_decomposable != md:
        res.violate("is_decomposable-wrong", f"{tag}: is_decomposable={sc.is_decomposable}, definition says {md}")
    msd = structs.is_structured_decomposable_model(sc)
    res.count("predicates_compared")
    if sc.is_structured_decomposable and not msd:
        res.violate("structured-unsound", f"{tag}: reported structured-decomposable, products split a scope differently")
    res.features.add("smooth" if ms else "nonsmooth")
    res.features.add("decomposable" if md else "nondecomposable")
    res.features.add("structured" if msd else "not-structured")
    return ms, md, msd


def check_metamorphic(res: Result, rng, sc, tag, meta):
    base = flags(sc)
    for k in range(2):
        p = permuted(rng, sc)
        res.features.add("permuted")
        res.count("predicates_compared", 3)
        if flags(p) != base:
            res.violate("order-dependent-flags", f"{tag}: (smooth,decomp,structured) {base} -> {flags(p)} after permuting layer input lists")
            break
    ids = sorted(set().union(*structs.layer_scopes(sc).values()))
    if ids:
        for mode in ("shift8", "random"):
            if mode == "shift8":
                targets = [8 + 3 * i for i in range(len(ids))]
                rng.shuffle(targets)
            else:
                targets = rng.sample(range(0, 41), len(ids))
            mapping = dict(zip(ids, targets))
            r = renumbered(sc, mapping)
            if max(targets) >= 8:
                res.features.add("renumbered>=8")
            res.count("predicates_compared", 3)
            if flags(r) != base:
                res.violate("numbering-dependent-flags", f"{tag}: flags {base} -> {flags(r)} after renumbering {mapping}")
                break


def check_pair(res: Result, rng, a, b, tag, kindtag):
    ab = call(are_compatible, fresh(a), fresh(b))
    ba = call(are_compatible, fresh(b), fresh(a))
    if not ab.ok or not ba.ok:
        exc_violation(res, ab if not ab.ok else ba, f"{tag}: are_compatible raised")
        return
    res.count("predicates_compared", 2)
    res.features.add(kindtag)
    need = structs.compatible_necessary(a, b)
    res.features.add("pair:compatible" if need else "pair:incompatible")
    if (ab.value or ba.value) and not need:
        res.violate("compatible-unsound", f"{tag}: are_compatible -> {ab.value}/{ba.value} although products over one scope split it differently (or not smooth/decomposable)")
    if ab.value != ba.value:
        res.violate("compatible-asymmetric", f"{tag} [{kindtag}]: are_compatible(a,b)={ab.value} but are_compatible(b,a)={ba.value}", kind=kindtag)
    # order invariance w.r.t. input lists of either argument
    pa, pb = permuted(rng, a), permuted(rng, b)
    v = call(are_compatible, pa, fresh(b))
    w = call(are_compatible, fresh(a), pb)
    res.count("predicates_compared", 2)
    if v.ok and w.ok and (v.value != ab.value or w.value != ab.value):
        res.violate("order-dependent-compatible", f"{tag}: are_compatible {ab.value} -> {v.value}/{w.value} after permuting layer input lists")
    # renumbering both with the same bijection
    ids = sorted(set().union(*structs.layer_scopes(a).values(), *structs.layer_scopes(b).values()))
    targets = rng.sample(range(0, 41), len(ids))
    mapping = dict(zip(ids, targets))
    r = call(are_compatible, renumbered(a, mapping), renumbered(b, mapping))
    res.count("predicates_compared")
    if r.ok and r.value != ab.value:
        res.violate("numbering-dependent-compatible", f"{tag}: are_compatible {ab.value} -> {r.value} after renumbering {mapping}")


CFGS = [
    dict(structured=True, max_reps=2),
    dict(structured=True, max_reps=1, prod_kinds=("hadamard",)),
    dict(structured=False, multi_part_prob=0.6),
    dict(defect="nonsmooth", out_units=2),
    dict(defect="nondecomp", out_units=2), dict(defect="nondecomp3", out_units=2), dict(defect="nonsmooth-const", out_units=2),
    dict(const_factor_prob=0.4, structured=True),
    dict(structured=True, id_mode="sparse"),
    dict(structured=False, id_mode="random", multi_part_prob=0.4),
]


def run_case(case) -> Result:
    res = Result()
    if case["kind"] == "rg":
        return run_rg(case, res)
    rng = case_rng(ID, case["seed"], ("block", case["block"]))
    sigs = set()
    for i in range(case["n"]):
        over = dict(rng.choice(CFGS))
        over["nvars"] = rng.randint(3 if over.get("defect") == "nondecomp3" else 2, 6)
        over.setdefault("out_units", rng.choice([1, 2]))
        over["kinds"] = ("cat", "embedding", "gaussian")
        cfg = gen.GenCfg(**over)
        sc, meta = gen.gen_circuit(rng, cfg)
        tag = f"block {case['block']} item {i}"
        check_circuit(res, rng, sc, tag)
        check_metamorphic(res, rng, sc, tag, meta)
        sigs.add(short_hash([sorted((sorted(k), sorted(map(str, v))) for k, v in structs.factorizations(sc).items()), flags(sc)]))
        # pairs
        which = rng.random()
        if which < 0.4:
            c2 = gen.GenCfg(nvars=over["nvars"], id_mode=over.get("id_mode", "contiguous"), kinds=over["kinds"], structured=True, out_units=1)
            (a, b), _ = gen.gen_compatible_pair(rng, c2, c2)
            check_pair(res, rng, a, b, tag, "pair:same-vtree")
        elif which < 0.6:
            # b lives on a sub-scope of a (shares a's partitioning below that scope or not)
            ids = sorted(structs.circuit_scope(sc))
            if len(ids) >= 3:
                scopes = structs.layer_scopes(sc)
                cands = [sl for sl in sc.layers if 2 <= len(scopes[sl]) < len(ids)]
                if cands:
                    sub = sc.subgraph(rng.choice(cands))
                    check_pair(res, rng, sc, sub, tag, "pair:subscope")
        elif which < 0.8:
            sc2, _ = gen.gen_circuit(rng, gen.GenCfg(**{**over, "defect": "none"}))
            check_pair(res, rng, sc, sc2, tag, "pair:unrelated")
        else:
            check_pair(res, rng, sc, fresh(sc), tag, "pair:self")
    res.sig = short_hash(sorted(sigs))
    res.obs["distinct_structures"] = len(sigs)
    return res


def run_rg(case, res: Result) -> Result:
    from cirkit.templates.region_graph import FullyFactorized, LinearTree, RandomBinaryTree, RegionGraph
    from cirkit.templates.region_graph.graph import PartitionNode

    rng = case_rng(ID, case["seed"], ("rg", case["block"]))

    def model_sd(rg):
        dec = {}
        for p in rg.partition_nodes:
            key = frozenset(int(v) for v in p.scope)
            dec.setdefault(key, set()).add(frozenset(frozenset(int(v) for v in r.scope) for r in rg.node_inputs(p)))
        return all(len(v) == 1 for v in dec.values())

    def permute_rg(rg):
        in_nodes = {}
        for n in rg.nodes:
            ins = list(rg.node_inputs(n))
            if ins:
                rng.shuffle(ins)
                in_nodes[n] = ins
        return RegionGraph(list(rg.nodes), in_nodes, list(rg.outputs))

    rgs = []
    for n in range(1, 7):
        for reps in range(1, 4):
            for s in range(5):
                rgs.append((f"RandomBinaryTree({n},reps={reps},seed={s})", RandomBinaryTree(n, num_repetitions=reps, seed=s + 5 * case["block"])))
            rgs.append((f"LinearTree({n},reps={reps},randomize)", LinearTree(n, num_repetitions=reps, randomize=True, seed=case["block"])))
            rgs.append((f"FullyFactorized({n},reps={reps})", FullyFactorized(n, num_repetitions=reps)))
    for name, rg in rgs:
        res.features.add("rg:checked")
        res.count("predicates_compared", 2)
        m = model_sd(rg)
        if rg.is_structured_decomposable and not m:
            res.violate("rg-structured-unsound", f"{name}: flag True, partitions differ")
        p = permute_rg(rg)
        if p.is_structured_decomposable != rg.is_structured_decomposable:
            res.violate("rg-order-dependent-flag", f"{name}: is_structured_decomposable {rg.is_structured_decomposable} -> {p.is_structured_decomposable} after permuting partition inputs (model: {m})")
        a, b = rg.is_compatible(p), p.is_compatible(rg)
        if a != b:
            res.violate("rg-compatible-asymmetric", f"{name}: is_compatible asymmetric {a}/{b}")
    res.sig = f"rg-{case['block']}"
    return res
