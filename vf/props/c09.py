"""C09 -- operators refuse invalid inputs, results keep the promised structure.

Monitor: runtime contracts on the real cirkit.symbolic.functional operators (vf.contracts): before
each call the operand is classified with the independent structural model (must the call refuse?
with which exception type?), after it the result's structure / scope / number of outputs are checked.
This module drives the contracts with valid and invalid operands and fuzzed arguments; the same
contracts stay on during every other property's workload.
"""
from __future__ import annotations

import numpy as np

import cirkit.symbolic.functional as SF
from cirkit.symbolic.circuit import StructuralPropertyError
from cirkit.utils.scope import Scope

from vf import cc as C, contracts, gen, pipes, structs
from vf.common import Result, call, case_rng, exc_violation, short_hash
from vf.monitors import MonitorViolation
from vf.props import c01

ID = "C09"
RULE = (
    "blocks of symbolic circuits: smooth+decomposable (structured and not), non-smooth, non-decomposable, "
    "with constant factors, sparse ids; each fed to integrate / differentiate / multiply (with itself, an "
    "aligned compatible partner, an incompatible partner, a partner over another scope) / conjugate / "
    "evidence / concatenate with valid and fuzzed arguments (empty scope, foreign variable, superset, "
    "empty observation, orders -1 / 0); query constructors on compiled invalid circuits; the contract "
    "decides expected refusal (and its type) before the call and the postconditions after; "
    "distinct = (structure signature, operator, argument class)"
)
EXHAUSTIVE_SUBSPACES = ["every operator x every argument class for each generated circuit"]
ASSUMPTIONS = ["vf/structs.py is the definition of smooth / decomposable / same-split", "a missing layer rule (OperatorSignatureNotFound) on a valid operand is a refusal, not a violation of C09"]
FLOOR = {k: 1 for k in [
    "integrate:refused-structure", "integrate:refused-scope", "integrate:returned", "differentiate:refused-structure",
    "differentiate:refused-order", "differentiate:returned", "multiply:refused", "multiply:returned", "conjugate:returned",
    "evidence:refused-args", "evidence:returned", "concatenate:returned", "query:refused", "query:accepted"]}
FLOOR["contract_posts_evaluated"] = 200


def plan(tier, seed):
    n = 72 if tier == "quick" else 6400
    return [{"kind": "block", "block": b, "n": 12, "seed": seed} for b in range(n)]


CFGS = [
    dict(structured=True), dict(structured=False, multi_part_prob=0.6), dict(defect="nonsmooth", out_units=2), dict(defect="nondecomp", out_units=2), dict(defect="nondecomp3", out_units=2), dict(defect="nonsmooth-const", out_units=2),
    dict(structured=True, const_factor_prob=0.4), dict(structured=True, id_mode="sparse"), dict(structured=True, kinds=("poly",)),
    dict(structured=True, outputs=2, out_units=2),
]


def attempt(res: Result, what: str, fn, *a, **kw):
    o = call(fn, *a, **kw)
    if not o.ok and isinstance(o.exc, MonitorViolation):
        res.violate(o.exc.vclass, f"{what}: {o.exc.detail}")
    return o


def run_case(case) -> Result:
    res = Result()
    rng = case_rng(ID, case["seed"], ("block", case["block"]))
    before = dict(contracts.COUNTS)
    sigs = set()
    for i in range(case["n"]):
        over = dict(rng.choice(CFGS))
        over["nvars"] = rng.randint(3 if over.get("defect") == "nondecomp3" else 2, 5)
        over.setdefault("out_units", rng.choice([1, 2]))
        over.setdefault("kinds", rng.choice([("cat", "embedding", "gaussian"), ("cat",), ("poly",), ("embedding", "gaussian_lp")]))
        cfg = gen.GenCfg(**over)
        sc, meta = gen.gen_circuit(rng, cfg)
        domains = meta["domains"]
        ids = sorted(set().union(*structs.layer_scopes(sc).values()))
        cs = sorted(structs.circuit_scope(sc))
        sigs.add(c01.struct_sig(sc))
        tag = f"block {case['block']} item {i} ({over.get('defect', 'valid')})"
        # integrate: None, valid subset, empty, foreign, superset
        foreign = max(ids) + 3
        for z in (None, pipes.random_subset(rng, cs), [], [foreign], cs + [foreign]):
            attempt(res, f"{tag} integrate(scope={z})", SF.integrate, sc, None if z is None else Scope(z))
        # differentiate: orders
        for order in (1, 2, 0, -1):
            attempt(res, f"{tag} differentiate(order={order})", SF.differentiate, sc, order=order)
        # multiply: self, aligned partner, incompatible partner, partner over another scope
        attempt(res, f"{tag} multiply(c, c)", SF.multiply, sc, sc)
        kinds = tuple(cfg.kinds)
        c2 = gen.GenCfg(nvars=len(cs), kinds=kinds, structured=True, id_mode=cfg.id_mode)
        o = call(gen.gen_compatible_pair, rng, c2, c2)
        if o.ok:
            (a, b), _ = o.value
            attempt(res, f"{tag} multiply(aligned pair)", SF.multiply, a, b)
            attempt(res, f"{tag} multiply(c, partner)", SF.multiply, sc, a)
        other, _ = gen.gen_circuit(rng, gen.GenCfg(nvars=rng.randint(2, 4), kinds=kinds, structured=rng.random() < 0.5, multi_part_prob=0.5, id_mode="random"))
        attempt(res, f"{tag} multiply(c, unrelated)", SF.multiply, sc, other)
        attempt(res, f"{tag} multiply(unrelated, c)", SF.multiply, other, sc)
        # conjugate
        attempt(res, f"{tag} conjugate", SF.conjugate, sc)
        # evidence: valid, empty, foreign
        zs = pipes.random_subset(rng, cs)
        attempt(res, f"{tag} evidence(valid)", SF.evidence, sc, pipes.random_obs(rng, domains, [v for v in zs if v in domains]) or {cs[0]: 0})
        attempt(res, f"{tag} evidence(empty)", SF.evidence, sc, {})
        attempt(res, f"{tag} evidence(foreign)", SF.evidence, sc, {foreign: 0})
        # concatenate
        attempt(res, f"{tag} concatenate", SF.concatenate, [sc, sc] if rng.random() < 0.5 else [sc])
        # query constructors on the compiled circuit
        if i % 3 == 0:
            from cirkit.backend.torch.queries import IntegrateQuery, SamplingQuery

            comp = C.new_compiler("sum-product", rng.random() < 0.5, rng.random() < 0.5)
            oc = call(comp.compile, sc)
            if oc.ok:
                valid = structs.is_smooth(sc) and structs.is_decomposable(sc)
                for Q in (IntegrateQuery, SamplingQuery):
                    oq = call(Q, oc.value)
                    if oq.ok and not valid:
                        res.violate("query-accepted-invalid-circuit", f"{tag}: {Q.__name__} accepted a circuit that is not smooth and decomposable")
                    elif not oq.ok and valid:
                        res.violate("query-refused-valid-circuit", f"{tag}: {Q.__name__} raised {oq.exc_type} on a smooth decomposable circuit")
                    elif not oq.ok and not isinstance(oq.exc, ValueError):
                        res.violate("query-wrong-refusal-type", f"{tag}: {Q.__name__} raised {oq.exc_type}")
                    res.features.add("query:accepted" if oq.ok else "query:refused")
    after = contracts.COUNTS
    for k, v in after.items():
        dlt = v - before.get(k, 0)
        if dlt:
            res.obs["contract:" + k] = dlt
            res.features.add(k)
            if k.endswith(":post-evaluated"):
                res.count("contract_posts_evaluated", dlt)
    res.sig = short_hash(sorted(sigs))
    res.obs["distinct_structures"] = len(sigs)
    return res
