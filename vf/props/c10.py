"""C10 -- derived circuits share parameters with their operands at all times.

Monitor: (a) storage monitor at compile time -- every learnable tensor reachable from a derived
compiled circuit is one of its operands' tensors (identity of nn.Parameter objects); (b) relation
monitor after EVERY step of a history of in-place updates, without recompiling: the derived circuit's
outputs are compared with the reference of its symbolic definition under the *current* values read
back through the compiler map, and full-scope integrals with a brute-force sum of the compiled
operand's own outputs.
"""
from __future__ import annotations

import numpy as np
import torch

from vf import cc as C, gen, pipes, structs, tie
from vf.common import Result, call, case_rng, close_lin, exc_violation, np_rng, short_hash, to_linear
from vf.props import c01

ID = "C10"
RULE = (
    "operator pipelines (vf.pipes, depth 1-3, all six operators) x histories of 8-25 steps over {SGD step "
    "on a loss of the operand, Adam step through the derived circuit's own parameters, reset_parameters() "
    "on operand / on derived, load_state_dict of random tensors into the operand, in-place write through "
    "the compiler map, .data scaling}; the relation of every derived circuit is re-checked after each "
    "step; 4 flags; distinct = (pipeline structure, history signature); non-trivial = the pipeline has a "
    "learnable tensor and >= 1 derived circuit"
    " Also: twin pairs (mixed leaves, and `twin-mul`: one leaf family per pair, all 8 families cycled), frozen (non-learnable, randomly initialised) tensors, eval() / no_grad toggles between updates, operator relations recomputed from the operands' reference values;"
)
EXHAUSTIVE_SUBSPACES = ["relation of every circuit of the pipeline re-checked after every single step"]
ASSUMPTIONS = ["reference interpreter vf/ref.py", "constrained raw leaves pushed out of their domain by a gradient step are re-drawn in place (counted as an update)"]
FLOOR = {"upd:sgd-operand": 1, "upd:adam-derived": 1, "upd:reset-operand": 1, "upd:reset-derived": 1, "upd:load-state-dict": 1, "upd:inplace": 1,
         "upd:scale": 1, "upd:toggle-eval": 1, "ccp:pointer-fold-idx": 1, "relations_checked": 200, "storage_checked": 20,
         "twin-leaf:cat:probs_raw": 1, "twin-leaf:cat:logits": 1, "twin-leaf:embedding": 1, "twin-leaf:gaussian": 1, "twin-leaf:poly": 1}

STEPS = ["sgd-operand", "adam-derived", "reset-operand", "reset-derived", "load-state-dict", "inplace", "scale", "toggle-eval", "no-grad-eval"]


def plan(tier, seed):
    n = 10 if tier == "quick" else 600
    # twin-mul: 3 cases per leaf family in the quick tier (some architectures are refused by multiply)
    return [{"kind": "pipe", "pipe": kind, "k": k, "seed": seed} for kind in pipes.PIPE_KINDS for k in range(max(n, 24) if kind == "twin-mul" else n)]


def run_case(case) -> Result:
    res = Result()
    rng = case_rng(ID, case["seed"], ("pipe", case["pipe"], case["k"]))
    over = {"leaf": pipes.TWIN_LEAVES[case["k"] % len(pipes.TWIN_LEAVES)]} if case["pipe"] == "twin-mul" else {}
    built = C.build_or_refuse(res, lambda: pipes.gen_pipeline(rng, case["pipe"], **over))
    if built is None:
        return res
    root, info = built
    domains = info["domains"]
    if "leaf" in info:
        res.features.add("twin-leaf:" + ":".join(str(x) for x in info["leaf"] if x))
    nrng = np_rng(rng)
    circuits = tie.pipeline_circuits(root)
    derived = [c for c in circuits if c.operation is not None]
    bases = [c for c in circuits if c.operation is None]
    for c in circuits:
        res.features |= structs.circuit_features(c)
    cx = any(n.dtype.name == "COMPLEX" for c in circuits for n in tie.circuit_leaves(c)[0])
    sr = "complex-lse-sum" if cx or rng.random() < 0.3 else "sum-product"
    fold, opt = C.FLAGS[case["k"] % 4] if case["k"] < 4 else C.FLAGS[rng.randrange(4)]
    tag = C.flag_name(fold, opt)
    comp = C.new_compiler(sr, fold, opt)
    if C.compile_in(res, comp, root, f"pipeline [{tag}]") is None:
        return res
    res.features.add(tag)
    for c in circuits:
        res.features |= structs.compiled_features(comp.get_compiled_circuit(c))
    # (a) storage monitor
    base_params = {id(p) for c in bases for p in comp.get_compiled_circuit(c).parameters()}
    own_constants = set()
    for c in derived:
        for n in tie.circuit_leaves(c)[0]:
            t, _ = comp.state.retrieve_compiled_parameter(n)
            own_constants.add(id(t._ptensor))
    for c in derived:
        ccd = comp.get_compiled_circuit(c)
        res.count("storage_checked")
        for p in ccd.parameters():
            if p.requires_grad and id(p) not in base_params:
                res.violate("derived-owns-learnable-tensor", f"[{tag}] derived circuit ({c.operation.operator.name}) has a learnable tensor of shape {tuple(p.shape)} that no base circuit owns")
    pools = {}
    for c in circuits:
        cdom = pipes.remaining_domains(c, domains)
        if structs.circuit_scope(c):
            pool = C.input_pool(nrng, cdom, 5, limit=64)
            if pool.shape[1] < max(domains) + 1:
                pool = np.concatenate([pool, np.full((pool.shape[0], max(domains) + 1 - pool.shape[1]), 1, dtype=pool.dtype)], axis=1)
            pools[id(c)] = pool
        else:
            pools[id(c)] = None
    tol = "fft" if any("p:PolynomialProduct" in structs.circuit_features(c) for c in circuits) else "exact"

    def check_relations(step):
        # every circuit of the pipeline (operands too: the map must keep pointing at the storage
        # the operand really reads) against the reference under the current values
        for c in circuits:
            what = c.operation.operator.name if c.operation is not None else "operand"
            ok = C.check_value(res, c, comp, comp.get_compiled_circuit(c), pools[id(c)], sr, f"{tag} after {step}: {what}", tol)
            res.count("relations_checked")
            if not ok:
                return False
        # operator-level relations computed from the *operands'* references (independent of the
        # symbolic structure of the derived circuit)
        for c in derived:
            X = pools[id(c)]
            if X is None:
                continue
            op = c.operation.operator.name
            ops = c.operation.operands
            if op == "MULTIPLICATION" and all(structs.circuit_scope(o) == structs.circuit_scope(c) for o in ops):
                (r1, a1), (r2, a2) = C.reference(ops[0], comp, X), C.reference(ops[1], comp, X)
                from vf.props.c04 import expected_product

                e, sc_ = expected_product(r1, r2), expected_product(a1, a2)
            elif op == "CONJUGATION":
                r1, a1 = C.reference(ops[0], comp, X)
                e, sc_ = np.conj(r1), a1
            else:
                continue
            if not np.all(np.isfinite(sc_)):
                continue
            res.count("operator_relations_checked")
            if not C.check_expected(res, comp.get_compiled_circuit(c), X, e, sc_, sr, f"{tag} after {step}: {op} vs operands", tol, vclass="relation-mismatch"):
                return False
        return True

    hist = []
    nsteps = rng.randint(8, 25) if case["seed"] is not None else 10
    if not check_relations("compile"):
        return res
    learn = [p for c in bases for p in comp.get_compiled_circuit(c).parameters() if p.requires_grad]
    for s in range(nsteps):
        step = rng.choice(STEPS)
        hist.append(step)
        try:
            if step in ("sgd-operand", "adam-derived"):
                src = rng.choice(bases) if step == "sgd-operand" else rng.choice(derived)
                ccs = comp.get_compiled_circuit(src)
                params = [p for p in ccs.parameters() if p.requires_grad]
                if not params:
                    continue
                optim = torch.optim.SGD(params, lr=0.05) if step == "sgd-operand" else torch.optim.Adam(params, lr=0.05)
                x = pools[id(src)]
                y = ccs(C.to_tensor(x)) if x is not None else ccs()
                loss = (y.real if y.is_complex() else y).clamp(-50, 50).sum() if sr != "sum-product" else (y * y).sum()
                optim.zero_grad()
                loss.backward()
                for p in params:
                    if p.grad is not None:
                        p.grad.data = torch.nan_to_num(p.grad.data).clamp(-5, 5) if not p.grad.is_complex() else torch.nan_to_num(p.grad.data)
                optim.step()
            elif step == "reset-operand":
                comp.get_compiled_circuit(rng.choice(bases)).reset_parameters()
            elif step == "reset-derived":
                comp.get_compiled_circuit(rng.choice(derived)).reset_parameters()
            elif step == "load-state-dict":
                ccb = comp.get_compiled_circuit(rng.choice(bases))
                sd = {k: (torch.randn_like(v) if v.is_floating_point() or v.is_complex() else v.clone()) for k, v in ccb.state_dict().items()}
                # only learnable tensors get random values: constants / index buffers are kept
                keep = ccb.state_dict(keep_vars=True)
                for k, v in keep.items():
                    if not getattr(v, "requires_grad", False):
                        sd[k] = v.detach().clone()
                ccb.load_state_dict(sd)
            elif step == "inplace":
                tie.revalue(comp, root, np.random.default_rng(rng.getrandbits(32)), rng.choice(["normal", "small"]))
            elif step == "toggle-eval":
                # switching between eval() and train() mode is not an update, but caches keyed on it
                # must not survive the next update
                mode = rng.random() < 0.5
                for c in circuits:
                    comp.get_compiled_circuit(c).train(mode)
            elif step == "no-grad-eval":
                with torch.no_grad():
                    for c in circuits:
                        x = pools[id(c)]
                        comp.get_compiled_circuit(c)(C.to_tensor(x)) if x is not None else comp.get_compiled_circuit(c)()
            elif step == "scale":
                for p in learn:
                    if rng.random() < 0.5:
                        p.data.mul_(rng.choice([0.5, -1.0, 1.5]))
        except Exception as e:  # pylint: disable=broad-except
            from vf.monitors import MonitorViolation

            if isinstance(e, MonitorViolation):
                res.violate(e.vclass, f"[{tag}] step {s} {step}: {e.detail}")
                return res
            res.count("update_steps_failed")
            res.note = f"update step {step} raised {type(e).__name__}: {str(e)[:120]}"
            continue
        res.features.add("upd:" + step)
        tie.repair_domains(comp, root, np.random.default_rng(rng.getrandbits(32)))
        if not check_relations(f"step {s} ({step}; history {hist[-4:]})"):
            break
    res.sig = short_hash([c01.struct_sig(c) for c in circuits] + hist)
    res.nontrivial = bool(learn) and bool(derived)
    return res
