"""C11 -- marginal queries on compiled circuits equal true marginals per sample.

Monitor: IntegrateQuery output per sample against a brute-force marginal (sum / quadrature over the
masked variables) of the reference evaluation at that sample's values, and against the compiled
symbolic `integrate` for rows sharing a mask; shape (B, O, K); garbage in masked columns; rejection
of variables outside the scope and of masks with the wrong width.
"""
from __future__ import annotations

import numpy as np
import torch

import cirkit.symbolic.functional as SF
from cirkit.backend.torch.queries import IntegrateQuery
from cirkit.utils.scope import Scope

from vf import brute, cc as C, gen, pipes, structs, tie
from vf.common import Result, call, case_rng, compare_semiring, exc_violation, np_rng, short_hash
from vf.props import c01

ID = "C11"
RULE = (
    "smooth decomposable circuits over {categorical probs, categorical logits (normalised or not), "
    "Gaussian +- log-partition, binomial} (homogeneous families so that input layers fold, and mixed), "
    "contiguous and sparse scopes, multi-output; per-sample random masks in three argument forms (bool "
    "tensor incl. 1-D, one Scope, list of Scopes of length 1 or B), empty and full masks; batch sizes "
    "{1, 2, F-1, F, F+1, 7} for every input-layer fold count F; 4 flags x {sum-product, lse-sum}; "
    "distinct = (structure, flags); non-trivial = some row integrates a strict non-empty subset"
    " Also: re-query after an in-place update, probability tables with an impossible category (log-space), marginalised columns holding values whose density underflows to 0;"
)
EXHAUSTIVE_SUBSPACES = ["all 4 (fold, optimize) combinations (even cases)", "batch sizes 1, 2, F-1, F, F+1 for each input fold count F"]
ASSUMPTIONS = ["reference interpreter + quadrature of vf/brute.py", "embedding / polynomial layers have no backend integrate(): documented TypeError counted as refusal"]
FLOOR = {"logits&F>1": 1, "B=F": 1, "B=1&F>1": 1, "per-row-masks": 1, "form:tensor": 1, "form:tensor-1d": 1, "form:scope": 1, "form:list-1": 1, "form:list-B": 1,
         "reject:out-of-scope": 1, "reject:mask-width": 1, "marginals_compared": 300, "vs-symbolic-integrate": 1, "in:binomial-probs": 1, "in:gaussian-lp": 1, "requery-after-update": 1, "zero-probability-category": 1, "zero-density-in-marginalised-column": 1}


def plan(tier, seed):
    n = 28 if tier == "quick" else 1020
    cases = []
    for k in range(n):
        for kind in ("cat-logits", "cat", "gauss", "binomial", "mixed", "cat-zero"):
            cases.append({"kind": kind, "k": k, "seed": seed})
    cases += [{"kind": "embedding", "k": k, "seed": seed} for k in range(2)]
    return cases


def run_case(case) -> Result:
    res = Result()
    rng = case_rng(ID, case["seed"], (case["kind"], case["k"]))
    nrng = np_rng(rng)
    kind = case["kind"]
    kinds = {"cat-logits": ("cat",), "cat": ("cat",), "gauss": ("gaussian", "gaussian_lp"), "binomial": ("binomial",), "mixed": ("cat", "binomial", "gaussian", "gaussian_lp"),
             "embedding": ("embedding", "cat"), "cat-zero": ("cat",)}[kind]
    cat_modes = ("logits", "logits", "logits_lsm") if kind == "cat-logits" else ("probs_softmax", "probs_raw", "logits", "logits_lsm")
    mono = rng.random() < 0.6 and kind != "embedding"
    if kind == "cat-zero":  # probability tables with an impossible category 0, log-space semiring
        cat_modes, mono = ("probs_raw",), True
    cfg = gen.GenCfg(nvars=rng.randint(2, 5), kinds=kinds, cat_modes=cat_modes, same_kind_all_vars=kind != "mixed", structured=rng.random() < 0.6,
                     max_reps=rng.choice([1, 2]), out_units=rng.choice([1, 2]), outputs=rng.choice([1, 1, 2]), share_prob=0.1, max_units=2,
                     leaf_sum_prob=0.1, id_mode=rng.choice(["contiguous", "contiguous", "sparse"]), monotonic=mono,
                     prod_kinds=("hadamard", "kronecker") if rng.random() < 0.5 else ("hadamard",))
    c, meta = gen.gen_circuit(rng, cfg)
    domains = meta["domains"]
    ids = sorted(domains)
    ncols = max(ids) + 1
    res.features |= structs.circuit_features(c)
    sr = "lse-sum" if mono and (rng.random() < 0.6 or kind == "cat-zero") else "sum-product"
    res.features.add("sr:" + sr)
    res.sig = c01.struct_sig(c) + ":" + sr
    flags = C.FLAGS if case["k"] % 2 == 0 else [C.FLAGS[1], C.FLAGS[3]]
    vseed, vcls = rng.getrandbits(32), (rng.choice(["init", "normal"]) if not mono else rng.choice(["init", "posonly"]))
    tol = "quad" if any(d[0] == "cont" for d in domains.values()) else "exact"
    for fold, opt in flags:
        tag = C.flag_name(fold, opt)
        comp = C.new_compiler(sr, fold, opt)
        cc_ = C.compile_in(res, comp, c, f"[{tag}]")
        if cc_ is None:
            continue
        if vcls != "init":
            tie.revalue(comp, c, np.random.default_rng(vseed), vcls)
        if kind == "cat-zero":
            for n_, dom_ in tie.leaf_domains(c).items():
                if dom_ == "simplex":
                    v_ = tie.leaf_reader(comp)(n_).copy()
                    v_[..., 0] = 0.0
                    tie.write_leaf(comp, n_, v_ / v_.sum(axis=-1, keepdims=True))
            res.features.add("zero-probability-category")
        if sr == "lse-sum" and not C.monotone_ok(c, comp):
            continue
        oq = call(IntegrateQuery, cc_)
        if not oq.ok:
            exc_violation(res, oq, f"IntegrateQuery() on a smooth decomposable circuit [{tag}]")
            continue
        q = oq.value
        leaf = tie.leaf_reader(comp)
        fcs = sorted({l.num_folds for l in cc_.layers if hasattr(l, "scope_idx")})
        logits_folded = any(type(l).__name__ == "TorchCategoricalLayer" and l.logits is not None and l.num_folds > 1 for l in cc_.layers)
        if logits_folded:
            res.features.add("logits&F>1")
        sizes = sorted(set([1, 2, 7] + [b for f in fcs if f > 1 for b in (f - 1, f, f + 1)]))
        for B in sizes:
            X = gen.random_inputs(nrng, domains, B)
            form = rng.choice(["tensor", "tensor", "scope", "list-1", "list-B", "tensor-1d" if B == 1 else "tensor"])
            if form in ("scope", "list-1", "tensor-1d"):
                z = pipes.random_subset(rng, ids, nonempty=rng.random() < 0.9)
                masks = [z] * B
            else:
                masks = [pipes.random_subset(rng, ids, nonempty=rng.random() < 0.85) for _ in range(B)]
                if rng.random() < 0.15:
                    masks[0] = list(ids)
                if len({tuple(m) for m in masks}) > 1:
                    res.features.add("per-row-masks")
            mt = torch.zeros((B, ncols), dtype=torch.bool)
            for b, m in enumerate(masks):
                mt[b, m] = True
            if form == "tensor":
                arg = mt
            elif form == "tensor-1d":
                arg = mt[0]
            elif form == "scope":
                arg = Scope(masks[0])
            elif form == "list-1":
                arg = [Scope(masks[0])]
            else:
                arg = [Scope(m) for m in masks]
            res.features.add("form:" + form)
            # garbage in the masked columns: they must not influence the result
            # (continuous: a large value, or one so large that the density underflows to exactly 0 / -inf;
            # discrete: any category, in the cat-zero family the impossible one, whose log-probability is -inf)
            Xg = X.copy()
            huge_garbage = X.dtype.kind == "f" and rng.random() < 0.5
            for b, m in enumerate(masks):
                for v in m:
                    if domains[v][0] == "disc":
                        Xg[b, v] = 0 if kind == "cat-zero" else X[b, v]
                    else:
                        Xg[b, v] = 1.0e200 if huge_garbage else 1.0e3
            if huge_garbage and any(domains[v][0] == "cont" for m in masks for v in m):
                res.features.add("zero-density-in-marginalised-column")
            o = call(lambda: q(C.to_tensor(Xg), integrate_vars=arg))
            if not o.ok:
                if isinstance(o.exc, TypeError) and "not supported" in str(o.exc):
                    res.status, res.note = "refused", str(o.exc)[:100]
                    res.features.add("refused:no-backend-integrate")
                    return res
                exc_violation(res, o, f"IntegrateQuery [{tag}] B={B} form={form} folds={fcs}", "exception-query")
                res.violations[-1]["logits_folded"] = logits_folded
                continue
            got = o.value.detach().numpy()
            O, K = len(c.outputs), c.outputs[0].num_output_units
            if got.shape != (B, O, K):
                res.violate("query-output-shape", f"[{tag}] B={B} form={form} folds={fcs}: shape {got.shape}, expected {(B, O, K)}", logits_folded=logits_folded)
                continue
            if any(f > 1 for f in fcs):
                if B == 1:
                    res.features.add("B=1&F>1")
                if B in fcs:
                    res.features.add("B=F")
            want = np.zeros((B, O, K))
            scale = np.zeros((B, O, K))
            decided = np.ones(B, dtype=bool)
            for b in range(B):
                bm = brute.marginal(c, leaf, domains, X[b : b + 1], masks[b], max_rows=60_000)
                if bm is None:
                    decided[b] = False
                    res.count("rows_not_decided")
                    continue
                want[b], scale[b] = bm[0][0], bm[1][0]
            if decided.any():
                ok, idx, msg = compare_semiring(got[decided], want[decided], scale[decided], sr, tol)
                res.count("marginals_compared", int(decided.sum()) * O * K)
                if not ok:
                    res.violate("query-marginal-mismatch", f"[{tag} {vcls}] B={B} form={form} folds={fcs} masks={masks[:3]}: at {idx}: {msg}", logits_folded=logits_folded, B_equals_F=B in fcs)
            # against the compiled symbolic integrate (rows share one mask)
            if form in ("scope", "list-1") and masks[0] and len(masks[0]) < len(ids) and B == sizes[-1]:
                d = call(SF.integrate, c, Scope(masks[0]))
                if d.ok:
                    cd = C.compile_in(res, comp, d.value, f"symbolic integrate [{tag}]")
                    if cd is not None:
                        y = call(C.evaluate, cd, Xg)
                        if y.ok and y.value.shape == got.shape:
                            res.features.add("vs-symbolic-integrate")
                            if not np.allclose(y.value, got, rtol=1e-8, atol=1e-10, equal_nan=True):
                                res.violate("query-vs-symbolic-integrate", f"[{tag}] IntegrateQuery differs from compiled integrate(c,{masks[0]})")
        # the same query object after an in-place update of the parameters (no stale integrals)
        tie.revalue(comp, c, np.random.default_rng(vseed + 5), "posonly" if mono else "normal")
        if not (sr == "lse-sum" and not C.monotone_ok(c, comp)):
            B = 3
            X = gen.random_inputs(nrng, domains, B)
            masks = [pipes.random_subset(rng, ids) for _ in range(B)]
            mt = torch.zeros((B, ncols), dtype=torch.bool)
            for b, m in enumerate(masks):
                mt[b, m] = True
            o = call(lambda: q(C.to_tensor(X), integrate_vars=mt))
            if o.ok and o.value.shape == (B, len(c.outputs), c.outputs[0].num_output_units):
                got = o.value.detach().numpy()
                rows = []
                for b in range(B):
                    bm = brute.marginal(c, tie.leaf_reader(comp), domains, X[b : b + 1], masks[b], max_rows=60_000)
                    rows.append(bm)
                dec = [b for b in range(B) if rows[b] is not None]
                if dec:
                    want = np.stack([rows[b][0][0] for b in dec])
                    scale = np.stack([rows[b][1][0] for b in dec])
                    ok, idx, msg = compare_semiring(got[dec], want, scale, sr, tol)
                    res.count("marginals_compared", len(dec))
                    res.features.add("requery-after-update")
                    if not ok:
                        res.violate("query-stale-after-update", f"[{tag}] the same IntegrateQuery object after an in-place parameter update: at {idx}: {msg}")
            elif not o.ok:
                exc_violation(res, o, f"IntegrateQuery after update [{tag}]", "exception-query")
        # rejections
        foreign = max(ids) + 2
        X = gen.random_inputs(nrng, domains, 2)
        o = call(lambda: q(C.to_tensor(X), integrate_vars=Scope([ids[0], foreign])))
        res.features.add("reject:out-of-scope")
        if o.ok or not isinstance(o.exc, ValueError):
            res.violate("query-accepted-out-of-scope", f"[{tag}] variable {foreign} outside the scope -> {o.exc_type or 'returned'}")
        missing = [v for v in range(ncols) if v not in ids]
        if missing:
            o = call(lambda: q(C.to_tensor(X), integrate_vars=[Scope([missing[0]]), Scope([ids[0]])]))
            if o.ok or not isinstance(o.exc, ValueError):
                res.violate("query-accepted-out-of-scope", f"[{tag}] variable {missing[0]} (a gap of a sparse scope) -> {o.exc_type or 'returned'}")
        o = call(lambda: q(C.to_tensor(X), integrate_vars=torch.zeros((2, ncols + 1), dtype=torch.bool)))
        res.features.add("reject:mask-width")
        if o.ok or not isinstance(o.exc, ValueError):
            res.violate("query-accepted-wrong-mask-width", f"[{tag}] mask with {ncols + 1} columns -> {o.exc_type or 'returned'}")
    return res
