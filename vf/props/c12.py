"""C12 -- circuits built with normalised parameterisations are normalised.

Monitor: partition function by three routes -- compiled symbolic integrate (where an integration
rule exists), IntegrateQuery over the full scope, brute-force summation of compiled outputs over the
full domain (small discrete circuits) -- must be 1 (log Z = 0 within 1e-9); outputs non-negative and,
in log space, finite on in-support inputs; re-checked after training steps that drive the
unconstrained parameters far away and after extreme values written directly.
"""
from __future__ import annotations

import itertools

import numpy as np
import torch

import cirkit.symbolic.functional as SF
from cirkit.backend.torch.queries import IntegrateQuery
from cirkit.symbolic.parameters import mixing_weight_factory
from cirkit.templates import data_modalities, pgms, region_graph as RG, tensor_factorizations as TF
from cirkit.templates.utils import Parameterization, name_to_input_layer_factory, parameterization_to_factory
from cirkit.utils.scope import Scope

from vf import cc as C, gen, structs, tie
from vf.common import Result, call, case_rng, exc_violation, np_rng, short_hash
from vf.props import c01

ID = "C12"
RULE = (
    "template-built circuits: region graphs from every algorithm (argument grid up to 6-9 variables) x "
    "{cp, cp-t, tucker} x {categorical, binomial, Gaussian} inputs x units {1,2,3} x classes {1,2} x "
    "mixing / dense n-ary sums with softmax weights; image_data (tiny shapes, all five region graphs), "
    "tabular_data (both graphs, heterogeneous inputs), hmm, fully_factorized, cp / tucker with softmax "
    "factors; Z by three routes at initialisation, after 3-5 SGD steps with lr up to 10 and after +-30 "
    "written into the unconstrained leaves; 4 flags x {lse-sum, sum-product}; distinct = template + args"
)
EXHAUSTIVE_SUBSPACES = ["all 4 (fold, optimize) combinations (rotating with the case index, all four for every 4th case)", "full-domain enumeration for discrete circuits with <= 4096 assignments"]
ASSUMPTIONS = ["binomial inputs have no symbolic integration rule: Z by IntegrateQuery and brute force only", "Gaussian circuits: Z by symbolic integrate and IntegrateQuery (closed form) only"]
FLOOR = {"sum:mixing>1": 1, "sum:arity>1": 1, "alg:RandomBinaryTree": 1, "alg:LinearTree": 1, "alg:QuadGraph": 1, "alg:QuadTree": 1, "alg:PoonDomingos": 1,
         "alg:ChowLiuTree": 1, "alg:FullyFactorized": 1, "tmpl:image": 1, "tmpl:tabular": 1, "tmpl:hmm": 1, "tmpl:ff": 1,
         "tmpl:cp": 1, "tmpl:tucker": 1, "sp:cp": 1, "sp:cp-t": 1, "sp:tucker": 1, "after-updates": 1, "route:integrate": 1, "route:query": 1, "route:brute": 1,
         "Z_checks": 100}

SOFTMAX = Parameterization(activation="softmax", initialization="normal")


def plan(tier, seed):
    n = 96 if tier == "quick" else 9000
    kinds = ["rg", "rg", "rg", "rg", "image", "tabular", "hmm", "ff", "cp", "tucker"]
    cases = [{"kind": kinds[k % len(kinds)], "k": k, "seed": seed} for k in range(n)]
    # per-variable Binomial arguments (same units and parameter shapes, different total_count) in the
    # templates that take per-variable keyword lists
    cases += [{"kind": ("hmm-hb", "ff-hb")[k % 2], "k": 100000 + k, "seed": seed} for k in range(n // 4)]
    return cases


def build(case):
    rng = case_rng(ID, case["seed"], (case["kind"], case["k"]))
    kind = case["kind"]
    force_hb = kind.endswith("-hb")
    kind = kind[:-3] if force_hb else kind
    feats = {"tmpl:" + kind}
    inp = rng.choice(["categorical", "binomial", "gaussian"])
    if force_hb:
        inp = "binomial"
        feats.add("per-variable-binomial")
    ikw = {"categorical": {"num_categories": rng.randint(2, 3)}, "binomial": {"total_count": rng.randint(1, 2)}, "gaussian": {}}[inp]
    ni, ns, nc = rng.randint(1, 3), rng.randint(1, 3), rng.randint(1, 2)
    sp = rng.choice(["cp", "cp-t", "tucker"])
    mixing = rng.random() < 0.5
    desc = {}
    if kind == "rg":
        alg = rng.choice(["RandomBinaryTree", "LinearTree", "FullyFactorized", "QuadTree", "QuadGraph", "PoonDomingos", "ChowLiuTree"])
        feats.add("alg:" + alg)
        if alg == "RandomBinaryTree":
            n = rng.randint(1, 7)
            rg = RG.RandomBinaryTree(n, depth=rng.choice([None, None, 1]) if n > 1 else None, num_repetitions=rng.randint(1, 3), seed=rng.randrange(100))
        elif alg == "LinearTree":
            n = rng.randint(1, 6)
            rg = RG.LinearTree(n, num_repetitions=rng.randint(1, 3), randomize=rng.random() < 0.5, seed=rng.randrange(100))
        elif alg == "FullyFactorized":
            rg = RG.FullyFactorized(rng.randint(1, 6), num_repetitions=rng.randint(1, 3))
        elif alg == "QuadTree":
            rg = RG.QuadTree((rng.randint(1, 2), rng.randint(1, 3), rng.randint(1, 3)), num_patch_splits=rng.choice([2, 4]))
        elif alg == "QuadGraph":
            rg = RG.QuadGraph((1, rng.randint(1, 3), rng.randint(1, 3)))
        elif alg == "PoonDomingos":
            rg = RG.PoonDomingos((1, rng.randint(1, 3), rng.randint(1, 3)), delta=rng.choice([1, 2, [1, 2]]))
        else:
            d = rng.randint(2, 5)
            g = torch.Generator().manual_seed(rng.randrange(1000))
            z = torch.randn(100, d, generator=g)
            rg = RG.ChowLiuTree(z, "gaussian", root=rng.choice([None, 0, d - 1]))
        if sp in ("cp-t", "tucker"):
            ns = ni
        swf = parameterization_to_factory(SOFTMAX)
        nary = (lambda shape: mixing_weight_factory(shape, param_factory=swf)) if mixing else swf
        sc = rg.build_circuit(input_factory=name_to_input_layer_factory(inp, **ikw), sum_product=sp, sum_weight_factory=swf, nary_sum_weight_factory=nary,
                              num_input_units=ni, num_sum_units=ns, num_classes=nc)
        desc = dict(alg=alg, sp=sp, inp=inp, ni=ni, ns=ns, nc=nc, mixing=mixing, nvars=len(sc.scope))
        feats.add("sp:" + sp)
    elif kind == "image":
        rgname = rng.choice(["quad-tree-2", "quad-tree-4", "quad-graph", "random-binary-tree", "poon-domingos"])
        shape = (rng.randint(1, 2), rng.randint(1, 3), rng.randint(1, 3))
        inp_i = rng.choice(["categorical", "binomial", "gaussian"])
        if sp in ("cp-t", "tucker"):
            ns = ni
        sc = data_modalities.image_data(shape, rgname, input_layer=inp_i, num_input_units=ni, sum_product_layer=sp, num_sum_units=ns, num_classes=nc, use_mixing_weights=mixing)
        desc = dict(rg=rgname, shape=shape, sp=sp, inp=inp_i, ni=ni, ns=ns, nc=nc, mixing=mixing)
        feats.add("sp:" + sp)
        feats.add("alg:" + {"quad-tree-2": "QuadTree", "quad-tree-4": "QuadTree", "quad-graph": "QuadGraph", "random-binary-tree": "RandomBinaryTree", "poon-domingos": "PoonDomingos"}[rgname])
        inp = inp_i
    elif kind == "tabular":
        d = rng.randint(2, 5)
        hetero = rng.random() < 0.5
        layers = [rng.choice([{"name": "categorical", "args": {"num_categories": rng.randint(2, 3)}}, {"name": "gaussian", "args": {}}, {"name": "binomial", "args": {"total_count": rng.randint(1, 3)}}]) for _ in range(d)] if hetero else \
            {"name": inp if inp != "binomial" else "categorical", "args": ikw if inp == "categorical" else ({"num_categories": 2} if inp == "binomial" else {})}
        if sp in ("cp-t", "tucker"):
            ns = ni
        if rng.random() < 0.5:
            sc = data_modalities.tabular_data("random-binary-tree", num_features=d, input_layers=layers, num_input_units=ni, sum_product_layer=sp, num_sum_units=ns, num_classes=nc, use_mixing_weights=mixing)
            feats.add("alg:RandomBinaryTree")
        else:
            g = torch.Generator().manual_seed(rng.randrange(1000))
            z = torch.randn(120, d, generator=g)
            names = [l["name"] for l in layers] if isinstance(layers, list) else [layers["name"]] * d
            data = z.clone()
            for i, nm in enumerate(names):
                if nm in ("categorical", "binomial"):
                    data[:, i] = (z[:, i] > 0).float()
            sc = data_modalities.tabular_data("chow-liu-tree", data=data, input_layers=layers, num_input_units=ni, sum_product_layer=sp, num_sum_units=ns, num_classes=nc, use_mixing_weights=mixing)
            feats.add("alg:ChowLiuTree")
        desc = dict(d=d, hetero=hetero, sp=sp, ni=ni, ns=ns, nc=nc, mixing=mixing)
        feats.add("sp:" + sp)
        inp = "mixed"
    elif kind == "hmm":
        n = rng.randint(1, 5)
        order = list(range(n))
        rng.shuffle(order)
        # per-variable arguments (a different domain size for each variable) half of the time
        hetero = (rng.random() < 0.5 and inp != "gaussian") or force_hb
        kw = [({"num_categories": 2 + (v % 3)} if inp == "categorical" else {"total_count": 1 + (v % 3)}) for v in range(n)] if hetero else ikw
        sc = pgms.hmm(order, input_layer=inp, num_latent_states=rng.randint(1, 3), input_layer_kwargs=kw)
        desc = dict(order=order, inp=inp, hetero=hetero)
    elif kind == "ff":
        n = rng.randint(1, 5)
        hetero = (rng.random() < 0.5 and inp != "gaussian") or force_hb
        kw = [({"num_categories": 2 + (v % 3)} if inp == "categorical" else {"total_count": 1 + (v % 3)}) for v in range(n)] if hetero else ikw
        sc = pgms.fully_factorized(n, input_layer=inp, input_layer_kwargs=kw)
        desc = dict(n=n, inp=inp, hetero=hetero)
    elif kind == "cp":
        shape = tuple(rng.randint(2, 3) for _ in range(rng.randint(2, 4)))
        sc = TF.cp(shape, rng.randint(1, 3), input_layer="categorical", weight_param=SOFTMAX)
        desc = dict(shape=shape)
        inp = "categorical"
    else:
        shape = tuple(rng.randint(2, 3) for _ in range(rng.randint(2, 3)))
        sc = TF.tucker(shape, rng.randint(1, 2), input_layer="categorical", core_param=SOFTMAX)
        desc = dict(shape=shape)
        inp = "categorical"
    return rng, sc, feats, desc, inp


def domains_of(sc):
    from cirkit.symbolic import layers as L

    dom = {}
    for sl in sc.input_layers:
        if isinstance(sl, L.CategoricalLayer):
            d = ("disc", sl.num_categories)
        elif isinstance(sl, L.BinomialLayer):
            d = ("disc", sl.total_count + 1)
        elif isinstance(sl, L.GaussianLayer):
            d = ("cont", 0)
        else:
            continue
        for v in sl.scope:
            dom[int(v)] = d
    return dom


def run_case(case) -> Result:
    res = Result()
    built = C.build_or_refuse(res, lambda: build(case))
    if built is None:
        # a template that cannot be built on valid arguments is a finding for C16/C20; here: refusal
        return res
    rng, sc, feats, desc, inp = built
    nrng = np_rng(rng)
    res.features |= feats | structs.circuit_features(sc)
    res.sig = short_hash([case["kind"], desc])
    domains = domains_of(sc)
    has_binomial = any(type(l).__name__ == "BinomialLayer" for l in sc.input_layers)
    all_disc = all(d[0] == "disc" for d in domains.values())
    pool = gen.all_assignments(domains, limit=4096) if all_disc else None
    sample = gen.random_inputs(nrng, domains, 6)
    sym_int = None
    if not has_binomial:
        o = call(SF.integrate, sc)
        if o.ok:
            sym_int = o.value
        else:
            exc_violation(res, o, "integrate(template circuit)")
    flag_sets = C.FLAGS if case["k"] % 4 == 0 else [C.FLAGS[case["k"] % 4]]
    for fold, opt in flag_sets:
        for sr in (["lse-sum", "sum-product"] if case["k"] % 2 == 0 else ["lse-sum"]):
            tag = f"{C.flag_name(fold, opt)} {sr} {case['kind']} {desc}"
            comp = C.new_compiler(sr, fold, opt)
            cc_ = C.compile_in(res, comp, sc, f"[{tag}]")
            if cc_ is None:
                continue
            ci = C.compile_in(res, comp, sym_int, f"integrate [{tag}]") if sym_int is not None else None

            def check(stage):
                def logz(v):
                    v = np.asarray(v, dtype=np.float64)
                    return np.log(v) if sr == "sum-product" else v
                if ci is not None:
                    o = call(C.evaluate, ci, None)
                    if not o.ok:
                        exc_violation(res, o, f"evaluating integrate [{tag}] {stage}")
                    else:
                        res.features.add("route:integrate")
                        res.count("Z_checks")
                        lz = logz(o.value)
                        if not np.all(np.abs(lz) < 1e-8):
                            res.violate("not-normalised", f"[{tag}] {stage}: log Z by symbolic integrate = {lz.ravel()[:4]}")
                oq = call(lambda: IntegrateQuery(cc_)(C.to_tensor(sample), integrate_vars=Scope(sorted(domains))))
                if oq.ok:
                    res.features.add("route:query")
                    res.count("Z_checks")
                    lz = logz(oq.value.detach().numpy())
                    if not np.all(np.abs(lz) < 1e-8):
                        res.violate("not-normalised", f"[{tag}] {stage}: log Z by IntegrateQuery = {lz.ravel()[:4]}")
                elif not (isinstance(oq.exc, TypeError) and "not supported" in str(oq.exc)):
                    exc_violation(res, oq, f"IntegrateQuery over the full scope [{tag}] {stage}")
                if pool is not None:
                    o = call(C.evaluate, cc_, pool)
                    if not o.ok:
                        exc_violation(res, o, f"evaluating [{tag}] {stage}")
                    else:
                        res.features.add("route:brute")
                        y = o.value
                        if sr == "sum-product":
                            if np.any(y < -1e-12) or not np.all(np.isfinite(y)):
                                res.violate("negative-or-nonfinite-value", f"[{tag}] {stage}: min value {np.nanmin(y)}")
                            z = y.sum(axis=0)
                        else:
                            if np.any(np.isnan(y)) or np.any(np.isposinf(y)):
                                res.violate("negative-or-nonfinite-value", f"[{tag}] {stage}: NaN / +inf log-value")
                            from scipy.special import logsumexp

                            z = np.exp(logsumexp(y, axis=0))
                        res.count("Z_checks")
                        if not np.all(np.abs(z - 1.0) < 1e-8):
                            res.violate("not-normalised", f"[{tag}] {stage}: brute-force Z = {z.ravel()[:4]} over {pool.shape[0]} assignments")
                else:
                    o = call(C.evaluate, cc_, sample)
                    if o.ok:
                        y = o.value
                        if sr == "sum-product" and (np.any(y < 0) or not np.all(np.isfinite(y))):
                            res.violate("negative-or-nonfinite-value", f"[{tag}] {stage}: min value {np.nanmin(y)}")
                        if sr == "lse-sum" and not np.all(np.isfinite(y)):
                            res.violate("nonfinite-log-value", f"[{tag}] {stage}: non-finite log-value on an in-support input")

            check("at initialisation")
            if res.violations:
                return res
            # training steps with a large learning rate
            params = [p for p in cc_.parameters() if p.requires_grad]
            if params:
                optim = torch.optim.SGD(params, lr=rng.choice([0.5, 3.0, 10.0]))
                for _ in range(rng.randint(3, 5)):
                    y = cc_(C.to_tensor(sample))
                    loss = -(y if sr == "lse-sum" else torch.log(y.clamp_min(1e-300))).sum()
                    optim.zero_grad()
                    loss.backward()
                    for p in params:
                        if p.grad is not None:
                            p.grad.data = torch.nan_to_num(p.grad.data)
                    optim.step()
                res.features.add("after-updates")
                check("after SGD steps")
                if res.violations:
                    return res
                # extreme unconstrained values (moderate for Gaussian scales so that densities stay finite)
                with torch.no_grad():
                    for p in params:
                        p.copy_(torch.from_numpy(nrng.uniform(-30, 30, size=tuple(p.shape))) if inp in ("categorical",) else torch.from_numpy(nrng.uniform(-6, 6, size=tuple(p.shape))))
                check("after extreme values")
    return res
