"""C13 -- gradients of compiled circuits are correct and flag-independent.

Monitor: autograd gradients pulled back through the compiler map (tensor.grad[fold_idx]) for every
symbolic tensor parameter, and gradients w.r.t. continuous inputs, against central finite
differences of the *reference* interpreter; pairwise equality of the pulled-back gradients across the
4 flag combinations; torch.autograd anomaly mode during backward; gradcheck of the custom SafeLog /
ComplexSafeLog functions; finiteness of gradients wherever the value is non-zero.
"""
from __future__ import annotations

import numpy as np
import torch

import cirkit.symbolic.functional as SF
from cirkit.backend.torch.utils import csafelog, safelog
from cirkit.symbolic import parameters as P

from vf import cc as C, gen, pipes, ref, structs, tie
from vf.common import Result, TOL, call, case_rng, exc_violation, np_rng, short_hash
from vf.props import c01

ID = "C13"
RULE = (
    "small random circuits (<= 4 variables, <= 3 units; all input families; Hadamard / Kronecker; mixing "
    "sums; multi-output) and operator results (squares c*c and c*conj(c), integrals, products); losses = "
    "each output unit (real and imaginary part for complex outputs) evaluated on a batch; EVERY entry of "
    "every symbolic tensor parameter compared with a central finite difference of the reference (step "
    "1e-6 scaled, Richardson), every continuous input column too; 3 semirings; gradients compared "
    "symbol-by-symbol across the 4 flag combinations; boundary valuations with exact zeros"
    " Also: partly frozen circuits (frozen next to learnable tensors of equal shape), tiny-exp weights with a loss on log-values, a backward pass in eval() mode compared with training mode, self-validated finite differences, a no_grad (train / eval mode) evaluation of the same compiled circuit right before the backward pass in 2 of 3 cases;"
)
EXHAUSTIVE_SUBSPACES = ["every entry of every symbolic tensor parameter of every case", "all 4 (fold, optimize) combinations"]
ASSUMPTIONS = ["reference interpreter vf/ref.py is differentiated numerically (central differences + one Richardson step, tolerance 2e-5 of the abs-scale)"]
FLOOR = {"ccp:pointer-fold-idx": 1, "cc:TorchTensorDotLayer": 1, "cc:TorchTuckerLayer": 1, "cc:TorchCPTLayer": 1, "sr:complex-lse-sum": 1, "sr:lse-sum": 1,
         "ccp:TorchLogSoftmaxParameter": 1, "p:IndexParameter": 1, "grad_entries_compared": 500, "flag_pairs_compared": 20, "input-gradient": 1,
         "gradcheck": 1, "zero-boundary": 1, "tiny-values": 1, "backward-in-eval-mode": 1, "warmup:no-grad": 1, "warmup:eval-no-grad": 1}


def plan(tier, seed):
    n = 18 if tier == "quick" else 810
    cases = []
    for k in range(n):
        for kind in ("base", "base-mono", "base-complex", "square", "sq-conj-int", "mul-int", "multiply", "index", "zero-boundary", "tiny-exp", "partly-frozen"):
            cases.append({"kind": kind, "k": k, "seed": seed})
    cases.append({"kind": "gradcheck", "k": 0, "seed": seed})
    return cases


def build(case):
    rng = case_rng(ID, case["seed"], (case["kind"], case["k"]))
    kind = case["kind"]
    small = dict(nvars=rng.randint(1, 3), max_units=2, max_reps=rng.choice([1, 2]), out_units=rng.choice([1, 2]), outputs=rng.choice([1, 1, 2]))
    mono, cx = False, False
    if kind == "base":
        cfg = gen.GenCfg(**small, structured=rng.random() < 0.5)
        sc, meta = gen.gen_circuit(rng, cfg)
        return rng, sc, meta["domains"], rng.choice(["sum-product", "complex-lse-sum"]), mono
    if kind == "base-mono":
        cfg = gen.GenCfg(**small, monotonic=True, kinds=("cat", "binomial", "embedding", "gaussian", "gaussian_lp"))
        sc, meta = gen.gen_circuit(rng, cfg)
        return rng, sc, meta["domains"], rng.choice(["lse-sum", "lse-sum", "sum-product"]), True
    if kind == "base-complex":
        cfg = gen.GenCfg(**small, complex=True, kinds=("embedding", "poly", "cat"))
        sc, meta = gen.gen_circuit(rng, cfg)
        return rng, sc, meta["domains"], "complex-lse-sum", mono
    if kind == "index":
        cfg = gen.GenCfg(**small, kinds=("embedding", "cat"), weight_kinds=("raw",))
        sc, meta = gen.gen_circuit(rng, cfg)
        # re-parameterise one sum layer by an index (gather with repeated indices) of a larger tensor
        from cirkit.symbolic import layers as L
        from cirkit.symbolic.circuit import Circuit

        sums = [s for s in sc.sum_layers]
        if sums:
            s0 = rng.choice(sums)
            ko, ki = s0.weight.shape
            big = P.TensorParameter(ko, ki + 2, initializer=__import__("cirkit.symbolic.initializers", fromlist=["x"]).NormalInitializer())
            idx = [rng.randrange(ki + 2) for _ in range(ki)]
            w = P.Parameter.from_unary(P.IndexParameter((ko, ki + 2), indices=idx, axis=1), big)
            s1 = L.SumLayer(s0.num_input_units, s0.num_output_units, arity=s0.arity, weight=w)
            layers = [s1 if l is s0 else l for l in sc.layers]
            in_layers = {(s1 if l is s0 else l): [(s1 if i is s0 else i) for i in sc.layer_inputs(l)] for l in sc.layers if sc.layer_inputs(l)}
            sc = Circuit(layers, in_layers, [(s1 if o is s0 else o) for o in sc.outputs])
        return rng, sc, meta["domains"], "sum-product", mono
    if kind == "tiny-exp":
        # exp-parameterised weights driven to about exp(-42): tiny but non-zero values in log space
        cfg = gen.GenCfg(**small, monotonic=True, weight_kinds=("exp",), kinds=("embedding", "cat"), mixing_prob=0.0)
        sc, meta = gen.gen_circuit(rng, cfg)
        return rng, sc, meta["domains"], "complex-lse-sum", False
    if kind == "partly-frozen":
        # frozen and learnable plain tensors of equal shapes side by side (they must not share a fold)
        cfg = gen.GenCfg(nvars=rng.randint(2, 4), max_units=2, max_reps=1, out_units=2, outputs=1, kinds=("embedding", "cat"), weight_kinds=("raw", "frozen"),
                         mixing_prob=0.0, structured=True, leaf_sum_prob=0.8)
        sc, meta = gen.gen_circuit(rng, cfg)
        return rng, sc, meta["domains"], rng.choice(["sum-product", "complex-lse-sum"]), mono
    if kind == "zero-boundary":
        cfg = gen.GenCfg(**small, kinds=("embedding", "cat"), cat_modes=("logits", "probs_softmax"))
        sc, meta = gen.gen_circuit(rng, cfg)
        return rng, sc, meta["domains"], rng.choice(["sum-product", "complex-lse-sum"]), mono
    root, info = pipes.gen_pipeline(rng, kind, nvars=rng.randint(1, 2), max_units=2)
    cxs = any(n.dtype.name == "COMPLEX" for c in tie.pipeline_circuits(root) for n in tie.circuit_leaves(c)[0])
    return rng, root, info["domains"], ("complex-lse-sum" if cxs or rng.random() < 0.5 else "sum-product"), mono


def loss_weights(nrng, shape):
    return nrng.normal(size=shape)


def semiring_loss_torch(y, wts, sr, part="re"):
    """A scalar loss of the circuit output whose reference counterpart is linear-space based."""
    w = torch.from_numpy(wts)
    if sr == "sum-product":
        return (y * w).sum()
    if sr == "lse-sum":
        return (y * w).sum()  # loss on log-values
    if part == "logre":  # loss on the real part of the complex log-values: sum w * log|c|
        return (y.real * w).sum()
    z = torch.exp(y)  # complex-lse: back to linear space (holomorphic), then real / imaginary part
    return ((z.real if part == "re" else z.imag) * w).sum()


def semiring_loss_ref(r, wts, sr, part="re"):
    if sr == "sum-product":
        return float(np.real((r * wts).sum()))
    if sr == "lse-sum":
        return float((np.log(np.real(r)) * wts).sum())
    if part == "logre":
        return float((np.log(np.abs(r)) * wts).sum())
    return float(((np.real(r) if part == "re" else np.imag(r)) * wts).sum())


def fd_gradient(f, x0, scale):
    """Central differences with one Richardson step on every entry of x0 (real or complex: for a
    complex leaf the derivative w.r.t. the real and the imaginary part, combined as torch does:
    grad = dL/dRe + i dL/dIm)."""
    g = np.zeros(x0.shape, dtype=x0.dtype)
    gerr = np.zeros(x0.shape, dtype=np.float64)
    it = np.nditer(x0, flags=["multi_index"])
    for _ in it:
        i = it.multi_index
        h = 1e-4 * max(1.0, abs(x0[i]))

        def d(dirn, hh):
            xp, xm = x0.copy(), x0.copy()
            xp[i] += dirn * hh
            xm[i] -= dirn * hh
            return (f(xp) - f(xm)) / (2 * hh)

        def rich(dirn, hh):
            return (4 * d(dirn, hh / 2) - d(dirn, hh)) / 3

        # two step sizes: their disagreement estimates the oracle's own truncation error (large when
        # the entry sits next to a singularity of the loss, e.g. log|c| with c proportional to a
        # parameter of size comparable to the step)
        a1, a2 = rich(1.0, h), rich(1.0, h / 8)
        g[i], gerr[i] = a2, abs(a1 - a2)
        if np.iscomplexobj(x0):
            b1, b2 = rich(1j, h), rich(1j, h / 8)
            g[i] = a2 + 1j * b2
            gerr[i] = abs(a1 - a2) + abs(b1 - b2)
    fd_gradient.last_err = gerr
    return g


def run_case(case) -> Result:
    res = Result()
    if case["kind"] == "gradcheck":
        return run_gradcheck(res)
    built = C.build_or_refuse(res, lambda: build(case))
    if built is None:
        return res
    rng, root, domains, sr, mono = built
    nrng = np_rng(rng)
    circuits = tie.pipeline_circuits(root)
    for c in circuits:
        res.features |= structs.circuit_features(c)
    res.features.add("sr:" + sr)
    res.sig = short_hash([c01.struct_sig(c) for c in circuits]) + ":" + sr
    rdom = pipes.remaining_domains(root, domains)
    X = gen.random_inputs(nrng, rdom, 3) if rdom else None
    if X is not None and X.shape[1] < max(domains) + 1:
        X = np.concatenate([X, np.full((X.shape[0], max(domains) + 1 - X.shape[1]), 1, dtype=X.dtype)], axis=1)
    O, K = len(root.outputs), root.outputs[0].num_output_units
    wshape = (X.shape[0], O, K) if X is not None else (O, K)
    wts = loss_weights(nrng, wshape)
    parts = ["re", "im"] if sr == "complex-lse-sum" else ["re"]
    if case["kind"] == "tiny-exp":
        parts = ["logre"]
        res.features.add("tiny-values")
    vseed = rng.getrandbits(32)
    vcls = "posonly" if mono else rng.choice(["normal", "normal", "small"])
    # all symbolic leaves of the pipeline (learnable)
    leaves = []
    for c in circuits:
        for n in tie.circuit_leaves(c)[0]:
            if n.learnable and not isinstance(n, P.ConstantParameter) and n not in leaves:
                leaves.append(n)
    cont_cols = [v for v, d in rdom.items() if d[0] == "cont"] if rdom else []
    grads = {}
    fd_done = False
    base_comp = None
    for fold, opt in C.FLAGS:
        tag = C.flag_name(fold, opt)
        comp = C.new_compiler(sr, fold, opt)
        cc_ = C.compile_in(res, comp, root, f"[{tag}]")
        if cc_ is None:
            continue
        for c in circuits:
            res.features |= structs.compiled_features(comp.get_compiled_circuit(c))
        tie.revalue(comp, root, np.random.default_rng(vseed), vcls)
        if case["kind"] == "tiny-exp":
            tr = np.random.default_rng(vseed + 2)
            for c in circuits:
                for _, _, pg in tie.circuit_params(c):
                    for n in pg.nodes:
                        if isinstance(n, P.TensorParameter) and any(isinstance(q, P.ExpParameter) for q in pg.node_outputs(n)):
                            tie.write_leaf(comp, n, tr.normal(-42.0, 1.0, size=n.shape))
        if case["kind"] == "zero-boundary":
            res.features.add("zero-boundary")
            zr = np.random.default_rng(vseed + 1)
            for n in leaves:
                v = tie.leaf_reader(comp)(n).copy()
                if tie.leaf_domains(next(c for c in circuits if n in tie.circuit_leaves(c)[0])).get(n) == "any":
                    v[zr.random(size=v.shape) < 0.3] = 0.0
                    tie.write_leaf(comp, n, v)
        # tie the valuation symbol by symbol to the first compiler (frozen, randomly initialised
        # tensors are not touched by revalue and would otherwise differ between compilers)
        if base_comp is None:
            base_comp = comp
        else:
            tie.copy_valuation(base_comp, comp, root)
        leaf = tie.leaf_reader(comp)
        if sr == "lse-sum" and not all(C.monotone_ok(c, comp) for c in circuits):
            return res
        r0, a0 = C.reference(root, comp, X)
        if X is None:
            r0, a0 = r0[0], a0[0]
        if not np.all(np.isfinite(a0)) or (sr == "lse-sum" and np.any(np.real(r0) <= 0)):
            res.note = "reference not in the differentiable domain; skipped"
            return res
        # evaluation history before the backward pass: anything materialised while autograd was off
        # (inference, validation between training steps) must not be reused by the differentiated pass
        warm = ("none", "no-grad", "eval-no-grad")[case["k"] % 3]
        if warm != "none":
            try:
                if warm == "eval-no-grad":
                    cc_.eval()
                with torch.no_grad():
                    cc_(C.to_tensor(X)) if X is not None else cc_()
            finally:
                cc_.train()
            res.features.add("warmup:" + warm)
        for part in parts:
            for m in cc_.parameters():
                m.grad = None
            xt = C.to_tensor(X)
            if xt is not None and cont_cols:
                xt = xt.clone().requires_grad_(True)
            try:
                with torch.autograd.set_detect_anomaly(True):
                    y = cc_(xt) if xt is not None else cc_()
                    loss = semiring_loss_torch(y, wts, sr, part)
                    loss.backward()
            except Exception as e:  # pylint: disable=broad-except
                from vf.common import Outcome

                out = Outcome(exc=e)
                exc_violation(res, out, f"backward [{tag} {part}] (anomaly mode)", "exception-backward")
                continue
            res.count("backward_passes")
            for n in leaves:
                if not comp.state.has_compiled_parameter(n):
                    continue
                t, i = comp.state.retrieve_compiled_parameter(n)
                g = t._ptensor.grad
                gnp = np.zeros(n.shape, dtype=np.complex128 if t._ptensor.is_complex() else np.float64) if g is None else g[i].detach().numpy()
                if not np.all(np.isfinite(gnp)):
                    res.violate("non-finite-gradient", f"[{tag} {part}] gradient of a symbolic parameter {n.shape} has NaN/Inf although all outputs are finite and non-zero: {np.abs(r0).min():.3g} <= |c(x)|", zero_boundary=case["kind"] == "zero-boundary")
                    continue
                grads[(fold, opt, part, id(n))] = gnp
            gx = None
            if xt is not None and cont_cols and xt.grad is not None:
                gx = xt.grad.detach().numpy()[:, cont_cols]
                res.features.add("input-gradient")
            # finite differences of the reference (once: under the (F,F) valuation -- all compilers
            # hold the same values, written from the same seed)
            if not fd_done or True:
                scale = float(np.abs(a0 * np.abs(wts)).sum()) + 1e-12
                if part == "logre":
                    scale = float(np.abs(wts).sum()) + 1e-12
                if (fold, opt) == (False, False):
                    for n in leaves:
                        if not comp.state.has_compiled_parameter(n):
                            continue
                        base = leaf(n).copy()

                        def f(v, n=n):
                            def lf(p):
                                return v if p is n else leaf(p)
                            rr = ref.eval_circuit(root, lf, X)
                            if X is None:
                                rr = rr[0]
                            return semiring_loss_ref(rr, wts, sr, part)

                        fd = fd_gradient(f, base, scale)
                        got = grads.get((fold, opt, part, id(n)))
                        if got is None:
                            continue
                        # torch's convention for complex leaves: grad = conj(dL/dz) * 2 ... -> compare
                        # through the real/imag split: dL/dRe = Re(grad), dL/dIm = Im(grad)
                        if np.iscomplexobj(base):
                            want = fd
                        else:
                            want = np.real(fd)
                        gsc = scale * TOL["grad"]["rel"] * (1.0 if sr != "lse-sum" else 1.0 / max(1e-12, float(np.min(np.real(r0))))) + TOL["grad"]["abs"]
                        err = np.abs(got - want)
                        fd_err = fd_gradient.last_err
                        bound = gsc * (1.0 + 0.0) + TOL["grad"]["rel"] * np.abs(want) + 4.0 * fd_err
                        # entries on which the two finite-difference estimates disagree by more than 1%
                        # are not decided by this oracle (the cross-flag comparison still covers them)
                        undecided = fd_err > 0.01 * np.abs(want) + 10 * gsc
                        res.count("grad_entries_compared", int(base.size - undecided.sum()))
                        if undecided.any():
                            res.count("fd_undecided_entries", int(undecided.sum()))
                        bad = ~(err <= bound) & ~undecided
                        if bad.any() and sr != "sum-product" and np.all(base[bad] == 0):
                            # every mismatching entry is an exactly-zero parameter entry evaluated in
                            # a log-space semiring (log 0 = -inf): separate failure class
                            j = tuple(int(q) for q in np.argwhere(bad)[0])
                            res.violate("gradient-at-exact-zero-entry", f"[{tag} {part}] {sr}: parameter {n.shape} entry {j} is exactly 0: autograd gives {got[j]!r}, the true derivative is {want[j]!r}")
                        elif bad.any():
                            j = np.unravel_index(np.argmax(err - bound), err.shape)
                            res.violate("gradient-vs-finite-difference", f"[{tag} {part} {vcls}] parameter {n.shape} entry {tuple(int(q) for q in j)}: autograd {got[j]!r} finite-difference {want[j]!r} (bound {bound[j] if np.ndim(bound) else bound:.3g})")
                    if gx is not None:
                        for ci_, v in enumerate(cont_cols):
                            for b in range(X.shape[0]):
                                def fx(val, b=b, v=v):
                                    Xp = X.copy()
                                    Xp[b, v] = val[0]
                                    return semiring_loss_ref(ref.eval_circuit(root, leaf, Xp), wts, sr, part)
                                fd = fd_gradient(fx, np.array([X[b, v]]), scale)[0]
                                gsc = scale * TOL["grad"]["rel"] * (1.0 if sr != "lse-sum" else 1.0 / max(1e-12, float(np.min(np.real(r0))))) * 10 + TOL["grad"]["abs"]
                                res.count("grad_entries_compared")
                                if abs(gx[b, ci_] - np.real(fd)) > gsc + TOL["grad"]["rel"] * abs(fd):
                                    res.violate("input-gradient-vs-finite-difference", f"[{tag} {part}] d loss / d x[{b},{v}]: autograd {gx[b, ci_]!r} finite-difference {fd!r}")
        # the same backward pass in inference mode (eval()): autograd is still on, so the gradients
        # must be the ones just computed in training mode
        part = parts[0]
        cc_.eval()
        try:
            for m in cc_.parameters():
                m.grad = None
            xt = C.to_tensor(X)
            y = cc_(xt) if xt is not None else cc_()
            semiring_loss_torch(y, wts, sr, part).backward()
            res.features.add("backward-in-eval-mode")
            for n in leaves:
                want = grads.get((fold, opt, part, id(n)))
                if want is None or not comp.state.has_compiled_parameter(n):
                    continue
                t, i = comp.state.retrieve_compiled_parameter(n)
                g = t._ptensor.grad
                gnp = np.zeros_like(want) if g is None else g[i].detach().numpy()
                res.count("eval_mode_grads_compared")
                if not np.allclose(gnp, want, rtol=1e-9, atol=1e-12 * (np.abs(want).max() + 1.0), equal_nan=True):
                    res.violate("gradient-differs-in-eval-mode", f"[{tag} {part}] parameter {n.shape}: gradient after circuit.eval() differs from the training-mode gradient (max |diff| {np.abs(gnp - want).max():.3g}{', no gradient at all' if g is None else ''})")
        except Exception as e:  # pylint: disable=broad-except
            from vf.common import Outcome

            exc_violation(res, Outcome(exc=e), f"backward in eval mode [{tag} {part}]", "exception-backward")
        finally:
            cc_.train()
    # flag independence
    for part in parts:
        for n in leaves:
            base = grads.get((False, False, part, id(n)))
            if base is None:
                continue
            for fold, opt in C.FLAGS[1:]:
                g = grads.get((fold, opt, part, id(n)))
                if g is None:
                    continue
                res.count("flag_pairs_compared")
                tolv = 1e-8 * (np.abs(base).max() + 1.0)
                if not np.allclose(g, base, rtol=1e-7, atol=tolv):
                    res.violate("gradient-flag-mismatch", f"[{C.flag_name(fold, opt)} {part}] gradient of parameter {n.shape} differs from fold=0,opt=0: max |diff| {np.abs(g - base).max():.3g}")
    return res


def run_gradcheck(res: Result) -> Result:
    res.features.add("gradcheck")
    torch.manual_seed(0)
    x = (torch.rand(6, dtype=torch.float64) + 0.5).requires_grad_(True)
    o = call(torch.autograd.gradcheck, safelog, (x,), eps=1e-6, atol=1e-5)
    if not o.ok or not o.value:
        res.violate("gradcheck-safelog", f"torch.autograd.gradcheck(safelog) failed: {o.exc}")
    z = (torch.randn(6, dtype=torch.complex128) + (1.5 + 0.5j)).requires_grad_(True)
    o = call(torch.autograd.gradcheck, csafelog, (z,), eps=1e-6, atol=1e-5)
    if not o.ok or not o.value:
        res.violate("gradcheck-csafelog", f"torch.autograd.gradcheck(csafelog) failed: {str(o.exc)[:300]}")
    # documented behaviour at 0: the gradient is replaced (nan_to_num), never NaN
    for fn, t in ((safelog, torch.zeros(3, dtype=torch.float64)), (csafelog, torch.zeros(3, dtype=torch.complex128))):
        t = t.clone().requires_grad_(True)
        y = fn(t)
        (y.real if y.is_complex() else y).sum().backward()
        if not torch.all(torch.isfinite(torch.view_as_real(t.grad) if t.grad.is_complex() else t.grad)):
            res.violate("safelog-nan-at-zero", f"{fn}: gradient at 0 is not finite: {t.grad}")
    res.count("grad_entries_compared", 12)
    res.sig = "gradcheck"
    return res
