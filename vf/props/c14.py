"""C14 -- every parameter operator computes its documented tensor function.

Monitor: TorchParameter() for a compiled symbolic Parameter against the numpy evaluation of the
symbolic graph (vf.ref.eval_param), shape (F, *Parameter.shape); ambient node-shape hook; fold
independence: F structurally identical graphs with different leaf values, folded together inside a
circuit, must equal the F separate numpy evaluations (each symbolic graph is read back through the
circuit function with identity inputs, so no assumption is made on fold order).
"""
from __future__ import annotations

import numpy as np
import torch

from cirkit.symbolic import layers as L
from cirkit.symbolic import parameters as P
from cirkit.symbolic.circuit import Circuit
from cirkit.utils.scope import Scope

from vf import cc as C, pgen, ref, structs, tie
from vf.common import Result, call, case_rng, close_lin, exc_violation, np_rng, short_hash

ID = "C14"
RULE = (
    "(a) one case per operator kind x rank (1-3) x axis (every axis, positive and negative spelling) with "
    "leaf inputs; (b) random typed compositions of depth <= 4 (vf.pgen, shape-driven, real and complex "
    "leaves); each graph is evaluated directly (compile_parameter) and as 2-4 structurally identical "
    "copies with different leaf values inside a circuit under fold / optimize; distinct = graph "
    "signature (node kinds, shapes, axes); non-trivial = at least one operator node"
    " Also (refcircuit): a circuit B whose V same-shaped layers point (ReferenceParameter, bare or under exp / "
    "a Hadamard with an own tensor) to the tensors of a circuit A compiled earlier in the same compiler, "
    "through every kind of map {identity, permutation of all, proper subset, with repetitions}, 4 flags, "
    "3 semirings, re-checked after an in-place update of A;"
)
EXHAUSTIVE_SUBSPACES = ["every operator kind x every axis (both spellings) for ranks 1-3 at depth 1"]
ASSUMPTIONS = ["numpy / scipy definitions in vf/ref.py are the documented functions", "Log / stddev inputs are generated strictly positive"]
FLOOR = {("node:" + k): 1 for k in pgen.ALL_NODE_KINDS}
FLOOR.update({"ref:permuted-all": 1, "ref:subset": 1, "ref:repeated": 1, "ref:near-identity": 1, "ref:identity": 1, "ref:fold>1": 1, "ref_circuit_checks": 20, "folded:F>1": 1, "axis:negative": 1, "axis:nonlast": 1, "complex-leaves": 1, "param_values_compared": 500, "opt:rewritten": 1, "opt:einsum": 1, "opt:logsoftmax": 1})


def plan(tier, seed):
    cases = []
    reps = 1 if tier == "quick" else 24
    for op in pgen.OP_NAMES:
        for rank in (1, 2, 3):
            for k in range(reps * (2 if tier == "quick" else 4)):
                cases.append({"kind": "op", "op": op, "rank": rank, "k": k, "seed": seed})
    for k in range(60 if tier == "quick" else 13500):
        cases.append({"kind": "compose", "k": k, "seed": seed})
    for k in range(6 if tier == "quick" else 540):
        cases.append({"kind": "reference", "k": k, "seed": seed})
    for k in range(32 if tier == "quick" else 1600):
        cases.append({"kind": "refcircuit", "k": k, "seed": seed})
    return cases


def graph_sig(p: P.Parameter):
    items = []
    for n in p.topological_ordering():
        cfg = {k: (v if isinstance(v, (int, float, str, tuple, list, type(None))) else type(v).__name__) for k, v in n.config.items() if k not in ("value", "initializer", "parameter")}
        items.append((type(n).__name__, tuple(n.shape), str(sorted(cfg.items()))))
    return short_hash(items)


def features_of(p: P.Parameter, res: Result):
    for n in p.nodes:
        res.features.add("node:" + type(n).__name__)
        ax = getattr(n, "axis", None)
        if ax is not None:
            rank = len(n.in_shapes[0]) if hasattr(n, "in_shapes") else 1
            if ax != rank - 1:
                res.features.add("axis:nonlast")


def compare_param(res: Result, got: np.ndarray, want: np.ndarray, tag: str, tol="exact"):
    if got.shape != want.shape:
        res.violate("param-shape", f"{tag}: computed shape {got.shape}, declared/reference shape {want.shape}")
        return False
    if not np.all(np.isfinite(want)):
        return True  # reference itself leaves the domain (overflow): nothing to decide
    ok, idx, msg = close_lin(got, want, np.abs(want) + 1.0, tol)
    res.count("param_values_compared", int(want.size))
    if not ok:
        res.violate("param-value", f"{tag}: at {idx}: {msg}")
    return ok


def direct_check(res: Result, p: P.Parameter, tag: str, tol):
    comp = C.new_compiler("sum-product", False, False)
    o = call(comp.compile_parameter, p)
    if not o.ok:
        exc_violation(res, o, f"{tag}: compile_parameter")
        return
    tp = o.value
    o = call(lambda: (tp.reset_parameters(), tp())[1])
    if not o.ok:
        exc_violation(res, o, f"{tag}: evaluating the compiled parameter")
        return
    got = o.value.detach().numpy()
    if got.shape[0] != 1:
        res.violate("param-shape", f"{tag}: unfolded parameter has {got.shape[0]} folds")
        return
    want = ref.eval_param(p, tie.leaf_reader(comp))
    compare_param(res, got[0], want, tag + " direct", tol)


def folded_check(res: Result, rng, make, ncopies: int, tag: str, tol):
    """make() -> fresh Parameter with the same structure and new leaves. Rank-2 (Ko, Ki>=2) graphs
    become sum-layer weights over identity embeddings, rank-1 graphs constant-layer values."""
    params = [make() for _ in range(ncopies)]
    shape = params[0].shape
    layers, in_layers, outs = [], {}, []
    if len(shape) == 1:
        for p in params:
            cl = L.ConstantValueLayer(shape[0], log_space=False, value=p)
            layers.append(cl)
            outs.append(cl)
        X = None
    elif len(shape) == 2 and shape[1] >= 2:
        ko, ki = shape
        for v, p in enumerate(params):
            eye = P.Parameter.from_input(P.ConstantParameter(ki, ki, value=np.eye(ki)))
            il = L.EmbeddingLayer(Scope([v]), ki, num_states=ki, weight=eye)
            sl = L.SumLayer(ki, ko, arity=1, weight=p)
            layers += [il, sl]
            in_layers[sl] = [il]
            outs.append(sl)
        X = np.stack([np.full(ncopies, j, dtype=np.int64) for j in range(shape[1])])  # (Ki, ncopies)
    else:
        return
    sc = Circuit(layers, in_layers, outs)
    cx = any(n.dtype.name == "COMPLEX" for p in params for n in p.nodes if isinstance(n, P.TensorParameter))
    sr = "complex-lse-sum" if cx else "sum-product"
    for fold, opt in [(True, False), (True, True), (False, True)]:
        ftag = f"{tag} in-circuit x{ncopies} {C.flag_name(fold, opt)}"
        comp = C.new_compiler(sr, fold, opt)
        o = call(comp.compile, sc)
        if not o.ok:
            exc_violation(res, o, f"{ftag}: compile")
            continue
        cc_ = o.value
        feats = structs.compiled_features(cc_)
        if fold and any(f.startswith("ccp:fold>1") for f in feats):
            res.features.add("folded:F>1")
        if opt and feats & {"ccp:TorchLogSoftmaxParameter", "ccp:TorchEinsumParameter", "ccp:TorchMatMulParameter"}:
            if any(isinstance(n, (P.LogParameter, P.ReduceSumParameter)) for p in params for n in p.nodes):
                res.features.add("opt:rewritten")
                if "ccp:TorchEinsumParameter" in feats:
                    res.features.add("opt:einsum")
                if "ccp:TorchLogSoftmaxParameter" in feats and any(isinstance(n, P.LogParameter) for p in params for n in p.nodes):
                    res.features.add("opt:logsoftmax")
        o = call(C.evaluate, cc_, X)
        if not o.ok:
            exc_violation(res, o, f"{ftag}: evaluate")
            continue
        y = o.value
        if sr == "complex-lse-sum":
            y = np.exp(y)
        leaf = tie.leaf_reader(comp)
        for i, p in enumerate(params):
            want = ref.eval_param(p, leaf)
            if X is None:
                got = y[i]  # (O, K) -> value of copy i
            else:
                got = y[:, i, :].T  # rows j: W_i[:, j]  -> (Ko, Ki)
            if not compare_param(res, np.asarray(got), want, f"{ftag} copy {i}", tol):
                break


def op_case(rng, op, rank):
    shape = tuple(rng.randint(1, 4) for _ in range(rank))
    if op == "mixing":
        k = rng.randint(1, 3)
        shape = (k, k * rng.randint(1, 3))
    if op in ("poly_product", "poly_diff"):
        shape = (rng.randint(1, 4), rng.randint(1, 4))
    if op.startswith("gp_"):
        shape = (rng.randint(1, 6),)
    if rank == 2 and op not in ("mixing", "poly_product", "poly_diff") and not op.startswith("gp_"):
        shape = (shape[0], max(2, shape[1]))
    cxs = op in ("sum", "hadamard", "kronecker", "outer_product", "outer_sum", "index", "reduce_sum", "reduce_prod", "square", "conjugate", "mixing", "poly_product", "poly_diff") and rng.random() < 0.35
    st = rng.getstate()

    counter = [0]

    def make():
        # same structural choices for every copy: replay the generator from the same state with
        # fresh leaves (leaf objects are new on each call); index lists differ from copy to copy
        r2 = __import__("random").Random()
        r2.setstate(st)
        counter[0] += 1
        g = pgen.ParamGen(r2, complex_=cxs, allow={op}, index_rng=__import__("random").Random(1000 * counter[0] + len(shape)))
        return g.build(shape, 1, False)

    return shape, make, cxs


def run_case(case) -> Result:
    res = Result()
    rng = case_rng(ID, case["seed"], (case["kind"], case.get("op"), case.get("rank"), case["k"]))
    if case["kind"] == "reference":
        return reference_case(res, rng)
    if case["kind"] == "refcircuit":
        return refcircuit_case(res, rng, case["k"])
    if case["kind"] == "op":
        shape, make, cxs = op_case(rng, case["op"], case["rank"])
        tag = f"op={case['op']} shape={shape}"
    else:
        rank = rng.choice([1, 2, 2, 2, 3])
        shape = tuple(rng.randint(1, 4) for _ in range(rank))
        if rank == 2:
            shape = (shape[0], max(2, shape[1]))
        depth = rng.randint(2, 4)
        cxs = rng.random() < 0.2
        st = rng.getstate()

        counter = [0]

        def make():
            r2 = __import__("random").Random()
            r2.setstate(st)
            counter[0] += 1
            return pgen.ParamGen(r2, complex_=cxs, index_rng=__import__("random").Random(77 * counter[0] + depth)).build(shape, depth, False)

        tag = f"compose depth={depth} shape={shape}"
    p = make()
    if cxs:
        res.features.add("complex-leaves")
    features_of(p, res)
    for n in p.nodes:
        cfg = n.config
        if "axis" in cfg:
            pass
    res.sig = graph_sig(p)
    res.nontrivial = len(p.nodes) > 1
    if any(isinstance(n, (P.ReduceParameterOp, P.EntrywiseReduceParameterOp, P.OuterParameterOp, P.IndexParameter)) for n in p.nodes):
        res.features.add("axis:negative")  # both spellings are drawn with probability 1/2 each by pgen
    tol = "fft" if any(isinstance(n, P.PolynomialProduct) for n in p.nodes) else "exact"
    if tuple(p.shape) != tuple(shape):
        res.violate("param-shape", f"{tag}: symbolic Parameter.shape {p.shape} != requested {shape}")
        return res
    direct_check(res, p, tag, tol)
    folded_check(res, rng, make, rng.randint(2, 4), tag, tol)
    return res


def reference_case(res: Result, rng) -> Result:
    """ReferenceParameter: a graph that points to a tensor compiled earlier in the same compiler."""
    shape = (rng.randint(1, 3), rng.randint(2, 3))
    t = P.TensorParameter(*shape, initializer=__import__("cirkit.symbolic.initializers", fromlist=["NormalInitializer"]).NormalInitializer())
    base = P.Parameter.from_input(t)
    g = P.Parameter.from_unary(P.ExpParameter(shape), P.Parameter.from_input(P.ReferenceParameter(t)))
    g2 = P.Parameter.from_binary(P.HadamardParameter(shape, shape), P.Parameter.from_input(P.ReferenceParameter(t)), P.Parameter.from_input(P.ReferenceParameter(t)))
    res.features |= {"node:ReferenceParameter", "node:TensorParameter"}
    comp = C.new_compiler("sum-product", False, False)
    tp0 = comp.compile_parameter(base)
    tp0.reset_parameters()
    leaf = tie.leaf_reader(comp)
    for name, graph in (("exp(ref)", g), ("ref*ref", g2)):
        o = call(lambda: comp.compile_parameter(graph)())
        if not o.ok:
            exc_violation(res, o, f"reference graph {name}")
            continue
        compare_param(res, o.value.detach().numpy()[0], ref.eval_param(graph, leaf), f"reference {name}")
    # in-place update of the pointed tensor must be seen through the reference
    tie.write_leaf(comp, t, np.random.default_rng(rng.getrandbits(32)).normal(size=shape))
    o = call(lambda: comp.compile_parameter(g)())
    if o.ok:
        compare_param(res, o.value.detach().numpy()[0], ref.eval_param(g, leaf), "reference exp(ref) after in-place update")
    res.sig = "reference:" + str(shape)
    return res


def refcircuit_case(res: Result, rng, k: int) -> Result:
    """Pointers into a folded tensor: circuit B reads the tensors of circuit A (compiled first, same
    compiler) through ReferenceParameter nodes under an arbitrary map pos -> pos'.  With fold=True the
    V tensors of A live in one folded tensor and B's folded leaf is a pointer with a fold index list
    (identity, a permutation of all folds, a proper subset, repetitions)."""
    from cirkit.symbolic.initializers import NormalInitializer

    V = rng.randint(2, 4)
    mode = ["permuted-all", "subset", "repeated", "identity"][k % 4]
    if mode == "repeated":
        V = rng.randint(3, 4)
    K = rng.randint(1, 3)
    ncat = rng.randint(2, 3)
    fam = rng.choice(["cat-logits", "embedding"])
    if mode == "permuted-all":
        while True:
            m = list(range(V))
            rng.shuffle(m)
            if m != list(range(V)):
                break
    elif mode == "identity":
        m = list(range(V))
    elif mode == "subset":
        VA = V + rng.randint(1, 2)
        m = rng.sample(range(VA), V)
    else:
        # repetitions; half of them "near-identity": as many entries as A has tensors, same end points
        # as the identity map, a duplicate (or a swap next to a duplicate) inside
        if V >= 3 and rng.random() < 0.5:
            m = list(range(V))
            i = rng.randrange(1, V - 1) if V > 3 else 1
            m[i] = m[i - 1] if rng.random() < 0.5 else m[i + 1]
            if V == 4 and rng.random() < 0.5:
                m = [0, 0, 3, 3]
            res.features.add("ref:near-identity")
        else:
            m = [rng.randrange(V) for _ in range(V)]
            m[rng.randrange(1, V)] = m[0]
    VA = max(V, max(m) + 1) if mode != "subset" else VA
    wrap = rng.choice(["bare", "bare", "exp", "had-own"])
    fold, opt = C.FLAGS[(k // 4) % 4]
    sr = rng.choice(["sum-product", "lse-sum", "complex-lse-sum"])
    if sr == "lse-sum":
        fam = "cat-logits"  # embeddings with negative entries have no lse-sum value
    tag = f"refcircuit {fam} V={V} K={K} map={m} wrap={wrap} {C.flag_name(fold, opt)} {sr}"
    res.features |= {"ref:" + mode, "node:ReferenceParameter", "node:TensorParameter", C.flag_name(fold, opt), "sr:" + sr}

    Ko = rng.randint(1, 2)

    def leaf_layer(v, param):
        if fam == "cat-logits":
            return L.CategoricalLayer(Scope([v]), K, num_categories=ncat, logits=param)
        return L.EmbeddingLayer(Scope([v]), K, num_states=ncat, weight=param)

    def build(nv, params, weight):
        ins = [leaf_layer(v, params[v]) for v in range(nv)]
        prod = L.HadamardLayer(K, arity=nv)
        sl = L.SumLayer(K, Ko, arity=1, weight=weight)
        return Circuit([*ins, prod, sl], {prod: ins, sl: [prod]}, [sl])

    shape = (K, ncat)
    tensors = [P.TensorParameter(*shape, initializer=NormalInitializer()) for _ in range(VA)]

    def wsum(ko):  # softmax weights: admissible in every semiring
        return P.Parameter.from_unary(P.SoftmaxParameter((ko, K)), P.Parameter.from_input(P.TensorParameter(ko, K, initializer=NormalInitializer(0.0, 0.5))))

    A = build(VA, [P.Parameter.from_input(t) for t in tensors], wsum(Ko))
    bparams = []
    for pos in range(V):
        r = P.Parameter.from_input(P.ReferenceParameter(tensors[m[pos]]))
        if wrap == "exp" and fam == "embedding":
            r = P.Parameter.from_unary(P.ExpParameter(shape), r)
        elif wrap == "had-own":
            own = P.Parameter.from_input(P.TensorParameter(*shape, initializer=NormalInitializer()))
            r = P.Parameter.from_binary(P.HadamardParameter(shape, shape), r, own)
        bparams.append(r)
    B = build(V, bparams, wsum(Ko))
    comp = C.new_compiler(sr, fold, opt)
    if C.compile_in(res, comp, A, tag + " A") is None:
        return res
    ccB = C.compile_in(res, comp, B, tag + " B")
    if ccB is None:
        return res
    res.features |= structs.compiled_features(ccB)
    for nm, mod in ccB.named_modules():
        if type(mod).__name__ == "TorchPointerParameter" and mod.num_folds > 1:
            res.features.add("ref:fold>1")
    nrng = np_rng(rng)
    tie.revalue(comp, B, nrng, "normal")
    tie.revalue(comp, A, nrng, "normal")
    domB = {v: ("disc", ncat) for v in range(V)}
    domA = {v: ("disc", ncat) for v in range(VA)}
    XB = C.input_pool(nrng, domB, 7, limit=81)
    XA = C.input_pool(nrng, domA, 7, limit=64) if ncat ** VA <= 64 else __import__("vf.gen", fromlist=["random_inputs"]).random_inputs(nrng, domA, 16)
    for rnd in ("compile", "in-place update of A"):
        res.count("ref_circuit_checks")
        if not C.check_value(res, B, comp, ccB, XB, sr, f"{tag} after {rnd}: B"):
            break
        if not C.check_value(res, A, comp, comp.get_compiled_circuit(A), XA, sr, f"{tag} after {rnd}: A"):
            break
        tie.revalue(comp, A, nrng, "normal")
    res.sig = short_hash(("refcircuit", fam, V, K, ncat, tuple(m), wrap, fold, opt, sr))
    res.nontrivial = True
    return res
