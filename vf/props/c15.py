"""C15 -- sampling draws from the distribution the circuit encodes.

The unbounded "frequencies converge" is restated as three bounded, observable claims:
 E1 (deterministic) every returned sample has positive probability under the reference; the sample
    tensor has shape (N, #variables); every column holds a value of that variable's domain.
 E2 (deterministic, column attribution) with one-hot input distributions whose hot category encodes
    the variable, each column must contain the code of its own variable.
 E3 (statistical, two-stage) Pearson chi-square of N samples against the exhaustive reference
    probabilities beyond the 1 - 1e-9 quantile, confirmed on an independent 4x larger sample.
"""
from __future__ import annotations

import numpy as np
import torch
from scipy import stats

from cirkit.backend.torch.queries import SamplingQuery
from cirkit.symbolic import layers as L
from cirkit.symbolic import parameters as P
from cirkit.symbolic.initializers import DirichletInitializer
from cirkit.symbolic.parameters import mixing_weight_factory
from cirkit.templates import region_graph as RG
from cirkit.templates.utils import Parameterization, name_to_input_layer_factory, parameterization_to_factory

from vf import cc as C, gen, structs, tie
from vf.common import Result, call, case_rng, exc_violation, np_rng, short_hash

ID = "C15"
RULE = (
    "normalised monotonic circuits: region-graph templates (cp / cp-t / tucker, mixing and dense n-ary "
    "sums, categorical with 2-5 categories and binomial inputs, asymmetric Dirichlet / softmax weights) and "
    "random vf.gen circuits with softmax sums (arity 1-4, Hadamard and Kronecker products); 4 flags; 3 "
    "torch seeds per case (quick) / 12 (thorough); support + shape + domain checks on every sample, "
    "one-hot column attribution, two-stage chi-square against exhaustive probabilities; contiguous scopes "
    "0..n-1 for the main workload, sparse scopes as a separate class"
)
EXHAUSTIVE_SUBSPACES = ["all 4 (fold, optimize) combinations per case", "exhaustive reference probabilities over the full discrete domain"]
ASSUMPTIONS = ["chi-square two-stage test at 1e-9 per stage (false-alarm probability < 1e-15 per case)", "single-output, single-unit circuits (the query returns samples[:, 0, 0])"]
FLOOR = {"sum:arity>1": 1, "cc:TorchCPTLayer": 1, "cc:fold>1:TorchCategoricalLayer": 1, "nonbinary": 1, "prod:kronecker": 1, "one-hot-attribution": 1,
         "samples_checked": 20000, "chi2_tests": 20, "sparse-scope": 1, "in:binomial-probs": 1, "resample-after-update": 1, "shared-layer": 1, "inputs-read-by-several-branches": 1}


def plan(tier, seed):
    n = 6 if tier == "quick" else 90
    kinds = ["rg-cp", "rg-cpt", "rg-tucker", "gen-hadamard", "gen-kronecker", "onehot", "sparse", "gen-mixing", "gen-shared", "branches"]
    cases = [{"kind": kinds[k % len(kinds)], "k": k, "seed": seed, "nseeds": 3 if tier == "quick" else 12} for k in range(n * len(kinds) // 2)]
    # the hand-built DAG family is cheap: more of it
    cases += [{"kind": "branches", "k": 10000 + k, "seed": seed, "nseeds": 2 if tier == "quick" else 6} for k in range(8 if tier == "quick" else 150)]
    return cases


def build(case):
    rng = case_rng(ID, case["seed"], (case["kind"], case["k"]))
    kind = case["kind"]
    if kind.startswith("rg-"):
        sp = {"rg-cp": "cp", "rg-cpt": "cp-t", "rg-tucker": "tucker"}[kind]
        n = rng.randint(2, 5)
        alg = rng.choice(["rbt", "rbt2", "linear", "quadgraph"])
        if alg == "rbt":
            rg = RG.RandomBinaryTree(n, num_repetitions=1, seed=rng.randrange(50))
        elif alg == "rbt2":
            rg = RG.RandomBinaryTree(n, num_repetitions=rng.randint(2, 3), seed=rng.randrange(50))
        elif alg == "linear":
            rg = RG.LinearTree(n, num_repetitions=rng.randint(1, 2), randomize=True, seed=rng.randrange(50))
        else:
            rg = RG.QuadGraph((1, 2, 2))
        inp = rng.choice(["categorical", "categorical", "binomial"])
        ikw = {"num_categories": rng.randint(2, 5)} if inp == "categorical" else {"total_count": rng.randint(1, 3)}
        sm = parameterization_to_factory(Parameterization(activation="softmax", initialization="normal", initialization_kwargs={"stddev": 1.5}))
        nary = (lambda shape: mixing_weight_factory(shape, param_factory=sm)) if rng.random() < 0.5 else sm
        ni = rng.randint(1, 3)
        sc = rg.build_circuit(input_factory=name_to_input_layer_factory(inp, **ikw), sum_product=sp, sum_weight_factory=sm, nary_sum_weight_factory=nary,
                              num_input_units=ni, num_sum_units=ni if sp != "cp" else rng.randint(1, 3), num_classes=1)
        return rng, sc
    if kind in ("onehot", "branches"):
        return rng, None
    prod = ("kronecker",) if kind == "gen-kronecker" else ("hadamard",)
    cfg = gen.GenCfg(nvars=rng.randint(2, 4), kinds=("cat", "binomial"), id_mode="sparse" if kind == "sparse" else "contiguous", monotonic=True,
                     weight_kinds=("softmax", "dirichlet"), cat_modes=("probs_softmax", "probs_raw", "logits_lsm"), prod_kinds=prod,
                     structured=(rng.random() < 0.5) and kind != "gen-shared", multi_part_prob=0.7 if kind == "gen-shared" else 0.4, max_reps=3 if kind in ("gen-mixing", "gen-shared") else 2, mixing_prob=0.9 if kind == "gen-mixing" else 0.0,
                     out_units=1, outputs=1, share_prob=0.8 if kind == "gen-shared" else 0.2, skip_sum_prob=0.0,
                     leaf_sum_prob=0.0 if kind == "gen-shared" else 0.3, max_units=2 if kind == "gen-shared" else 3)
    sc, meta = gen.gen_circuit(rng, cfg)
    return rng, sc


def domains_of(sc):
    dom = {}
    for sl in sc.input_layers:
        if isinstance(sl, L.CategoricalLayer):
            d = ("disc", sl.num_categories)
        elif isinstance(sl, L.BinomialLayer):
            d = ("disc", sl.total_count + 1)
        else:
            continue
        for v in sl.scope:
            dom[int(v)] = d
    return dom


def branches_circuit(rng):
    """The same input layers feed several branches of different kinds (a Hadamard / CP branch, a
    Kronecker / Tucker branch, a second Hadamard branch behind per-leaf sum layers) mixed at the root:
    a non-tree DAG in which every input module is read by more than one consumer."""
    from cirkit.symbolic.circuit import Circuit

    n = rng.randint(2, 3)
    K = rng.randint(1, 2)
    same = rng.random() < 0.7  # equal families and domain sizes: the input layers fold into one module
    ncat = rng.randint(2, 3)
    layers, in_layers = [], {}

    def add(l, ins=None):
        layers.append(l)
        if ins:
            in_layers[l] = list(ins)
        return l

    def sm(shape):
        return gen.weight_param(rng, "softmax", shape)

    ins = []
    for v in range(n):
        if same or rng.random() < 0.6:
            ins.append(add(L.CategoricalLayer(gen.Scope([v]), K, num_categories=ncat if same else rng.randint(2, 4))))
        else:
            ins.append(add(L.BinomialLayer(gen.Scope([v]), K, total_count=rng.randint(1, 2))))
    branches = []
    kinds = rng.sample(["hadamard", "kronecker", "leafsum-hadamard"], rng.randint(2, 3))
    for bk in kinds:
        if bk == "hadamard":
            pl = add(L.HadamardLayer(K, arity=n), ins)
        elif bk == "kronecker":
            pl = add(L.KroneckerLayer(K, arity=n), ins)
        else:
            mids = [add(L.SumLayer(K, K, arity=1, weight=sm((K, K))), [i]) for i in ins]
            pl = add(L.HadamardLayer(K, arity=n), mids)
        branches.append(add(L.SumLayer(pl.num_output_units, 1, arity=1, weight=sm((1, pl.num_output_units))), [pl]))
    root = add(L.SumLayer(1, 1, arity=len(branches), weight=sm((1, len(branches)))), branches)
    return Circuit(layers, in_layers, [root])


def onehot_circuit(rng):
    """Mixture of products of one-hot categoricals: category of variable v is code(v) = v + 1 (of
    n + 2 categories) so that every sample must be exactly (1, 2, ..., n) column-wise."""
    n = rng.randint(2, 5)
    ncat = n + 2
    layers, in_layers = [], {}
    K = rng.randint(1, 3)

    def hot(v):
        probs = np.full((K, ncat), 0.0)
        probs[:, v + 1] = 1.0
        return L.CategoricalLayer(gen.Scope([v]), K, num_categories=ncat, probs=P.Parameter.from_input(P.ConstantParameter(K, ncat, value=probs)))

    reg = gen.gen_region(rng, list(range(n)), max_parts=3, multi_part_prob=0.5)
    b = gen.CircuitBuilder(rng, gen.GenCfg(monotonic=True, weight_kinds=("softmax",), prod_kinds=("hadamard",), mixing_prob=0.3, skip_sum_prob=0.0, leaf_sum_prob=0.0, max_units=K))
    b.input_layer = lambda v, k: b._add(hot_k(v, k))

    def hot_k(v, k):
        probs = np.full((k, ncat), 0.0)
        probs[:, v + 1] = 1.0
        return L.CategoricalLayer(gen.Scope([v]), k, num_categories=ncat, probs=P.Parameter.from_input(P.ConstantParameter(k, ncat, value=probs)))

    out = b.get(reg, 1)
    return b.finish([out]), n


def run_case(case) -> Result:
    res = Result()
    rng, sc = build(case)
    kind = case["kind"]
    expected_cols = None
    if kind == "branches":
        sc = branches_circuit(rng)
        res.features.add("inputs-read-by-several-branches")
    if kind == "onehot":
        sc, n = onehot_circuit(rng)
        expected_cols = np.arange(1, n + 1)
        res.features.add("one-hot-attribution")
    res.features |= structs.circuit_features(sc)
    domains = domains_of(sc)
    ids = sorted(domains)
    if ids != list(range(len(ids))):
        res.features.add("sparse-scope")
    if any(d[1] > 2 for d in domains.values()):
        res.features.add("nonbinary")
    res.sig = short_hash([kind, __import__("vf.props.c01", fromlist=["x"]).struct_sig(sc)])
    pool = gen.all_assignments(domains, limit=3000)
    if pool is None:
        res.status = "skip"
        return res
    N1 = 20000
    for fold, opt in C.FLAGS:
        tag = f"{kind} {C.flag_name(fold, opt)}"
        comp = C.new_compiler("sum-product", fold, opt)
        cc_ = C.compile_in(res, comp, sc, tag)
        if cc_ is None:
            continue
        res.features |= structs.compiled_features(cc_)
        r, a = C.reference(sc, comp, pool)
        probs = np.real(r[:, 0, 0])
        if abs(probs.sum() - 1.0) > 1e-8 or np.any(probs < -1e-12):
            res.note = "generated circuit is not normalised (C12 territory); skipped"
            res.status = "skip"
            return res
        oq = call(SamplingQuery, cc_)
        if not oq.ok:
            exc_violation(res, oq, f"SamplingQuery() [{tag}]")
            continue
        q = oq.value
        key = {tuple(row[ids]): i for i, row in enumerate(pool)}
        for s in range(case["nseeds"] + 1):
            if s == case["nseeds"]:
                # last round: the same query and compiled circuit after an in-place parameter update
                tie.revalue(comp, sc, np.random.default_rng(4242 + case["k"]), "posonly")
                r, a = C.reference(sc, comp, pool)
                probs = np.real(r[:, 0, 0])
                if abs(probs.sum() - 1.0) > 1e-8 or np.any(probs < -1e-12) or expected_cols is not None:
                    break
                res.features.add("resample-after-update")
            torch.manual_seed(1000 * case["k"] + s)
            o = call(q, N1)
            if not o.ok:
                exc_violation(res, o, f"sampling [{tag}] (scope {ids})", "exception-sampling")
                break
            samples = o.value[0].detach().numpy()
            if samples.shape != (N1, len(ids)) and samples.shape != (N1, max(ids) + 1):
                res.violate("sample-shape", f"[{tag}] samples of shape {samples.shape}, expected ({N1}, {len(ids)})")
                break
            cols = samples if samples.shape[1] == len(ids) else samples[:, ids]
            res.count("samples_checked", N1)
            # E1: domain and support
            bad_dom = [v for j, v in enumerate(ids) if np.any(cols[:, j] < 0) or np.any(cols[:, j] >= domains[v][1]) or np.any(cols[:, j] != np.round(cols[:, j]))]
            if bad_dom:
                res.violate("sample-out-of-domain", f"[{tag}] columns of variables {bad_dom} hold values outside their domain")
                break
            if expected_cols is not None:
                if not np.all(cols == expected_cols[None, :]):
                    wrong = [ids[j] for j in range(len(ids)) if not np.all(cols[:, j] == expected_cols[j])]
                    res.violate("column-attribution", f"[{tag}] one-hot inputs: columns {wrong} are not filled from the input layer of their own variable (first sample {cols[0].tolist()})")
                    break
                continue
            idx = np.array([key.get(tuple(int(x) for x in row), -1) for row in cols])
            if np.any(idx < 0):
                res.violate("sample-out-of-domain", f"[{tag}] a sample is not a complete assignment of the domain")
                break
            counts = np.bincount(idx, minlength=len(pool)).astype(np.float64)
            if np.any((counts > 0) & (probs <= 0)):
                j = int(np.argmax((counts > 0) & (probs <= 0)))
                res.violate("sample-zero-probability", f"[{tag}] sample {pool[j][ids].tolist()} has probability 0 under the circuit")
                break
            # E3: chi-square, two-stage
            def chi2(counts, n):
                exp = probs * n
                order = np.argsort(exp)
                # pool small cells
                small = exp < 5
                if small.sum() > 0:
                    e2 = np.concatenate([exp[~small], [exp[small].sum()]])
                    c2 = np.concatenate([counts[~small], [counts[small].sum()]])
                else:
                    e2, c2 = exp, counts
                e2, c2 = e2[e2 > 0], c2[e2 > 0]
                if len(e2) < 2:
                    return 0.0, 1.0
                stat = float(((c2 - e2) ** 2 / e2).sum())
                return stat, float(stats.chi2.sf(stat, len(e2) - 1))

            st, p = chi2(counts, N1)
            res.count("chi2_tests")
            if p < 1e-9:
                torch.manual_seed(777 + 1000 * case["k"] + s)
                o2 = call(q, 4 * N1)
                if o2.ok:
                    s2 = o2.value[0].detach().numpy()
                    c2 = s2 if s2.shape[1] == len(ids) else s2[:, ids]
                    idx2 = np.array([key.get(tuple(int(x) for x in row), -1) for row in c2])
                    counts2 = np.bincount(idx2[idx2 >= 0], minlength=len(pool)).astype(np.float64)
                    st2, p2 = chi2(counts2, 4 * N1)
                    if p2 < 1e-9:
                        worst = int(np.argmax(np.abs(counts2 / (4 * N1) - probs)))
                        res.violate("distribution-mismatch", f"[{tag}] chi-square p={p:.1e} then p={p2:.1e} on an independent 4x sample; e.g. assignment {pool[worst][ids].tolist()}: frequency {counts2[worst] / (4 * N1):.4f} vs probability {probs[worst]:.4f}")
                        break
    return res
