"""C15 -- sampling draws from the distribution the circuit encodes.

The unbounded "frequencies converge" is restated as three bounded, observable claims:
 E1 (deterministic) every returned sample has positive probability under the reference; the sample
    tensor has shape (N, #variables); every column holds a value of that variable's domain.
 E2 (deterministic, column attribution) with one-hot input distributions whose hot category encodes
    the variable, each column must contain the code of its own variable.
 E3 (statistical, two-stage) Pearson chi-square of N samples against the exhaustive reference
    probabilities beyond the 1 - 1e-9 quantile, confirmed on an independent 4x larger sample.
"""
from __future__ import annotations

import numpy as np
import torch
from scipy import stats

from cirkit.backend.torch.queries import SamplingQuery
from cirkit.symbolic import layers as L
from cirkit.symbolic import parameters as P
from cirkit.symbolic.initializers import DirichletInitializer
from cirkit.symbolic.parameters import mixing_weight_factory
from cirkit.templates import region_graph as RG
from cirkit.templates.utils import Parameterization, name_to_input_layer_factory, parameterization_to_factory

from vf import cc as C, gen, structs, tie
from vf.common import Result, call, case_rng, exc_violation, np_rng, short_hash

ID = "C15"
RULE = (
    "normalised monotonic circuits: region-graph templates (cp / cp-t / tucker, mixing and dense n-ary "
    "sums, categorical with 2-5 categories and binomial inputs, asymmetric Dirichlet / softmax weights) and "
    "random vf.gen circuits with softmax sums (arity 1-4, Hadamard and Kronecker products); 4 flags; 3 "
    "torch seeds per case (quick) / 12 (thorough); support + shape + domain checks on every sample, "
    "one-hot column attribution, two-stage chi-square against exhaustive probabilities; contiguous scopes "
    "0..n-1 for the main workload, sparse scopes as a separate class"
    " Also: hand-built DAGs whose input layers feed Hadamard / Kronecker / leaf-sum branches, Gaussian and mixed circuits (category x tercile x tercile cell frequencies vs grid quadrature), resampling after an in-place update;"
)
EXHAUSTIVE_SUBSPACES = ["all 4 (fold, optimize) combinations per case", "exhaustive reference probabilities over the full discrete domain"]
ASSUMPTIONS = ["chi-square two-stage test at 1e-9 per stage (false-alarm probability < 1e-15 per case)", "single-output, single-unit circuits (the query returns samples[:, 0, 0])"]
FLOOR = {"sum:arity>1": 1, "cc:TorchCPTLayer": 1, "cc:fold>1:TorchCategoricalLayer": 1, "nonbinary": 1, "prod:kronecker": 1, "one-hot-attribution": 1,
         "samples_checked": 20000, "chi2_tests": 20, "sparse-scope": 1, "in:binomial-probs": 1, "resample-after-update": 1, "shared-layer": 1, "inputs-read-by-several-branches": 1, "continuous-variables": 1, "continuous_chi2_tests": 8}


def plan(tier, seed):
    n = 6 if tier == "quick" else 100
    kinds = ["rg-cp", "rg-cpt", "rg-tucker", "gen-hadamard", "gen-kronecker", "onehot", "sparse", "gen-mixing", "gen-shared", "branches"]
    cases = [{"kind": kinds[k % len(kinds)], "k": k, "seed": seed, "nseeds": 3 if tier == "quick" else 12} for k in range(n * len(kinds) // 2)]
    # continuous (and mixed) circuits: cell frequencies against grid quadrature of the circuit density
    cases += [{"kind": "gauss", "k": 20000 + k, "seed": seed, "nseeds": 2 if tier == "quick" else 3} for k in range(8 if tier == "quick" else 60)]
    # the hand-built DAG family is cheap: more of it
    cases += [{"kind": "branches", "k": 10000 + k, "seed": seed, "nseeds": 2 if tier == "quick" else 6} for k in range(8 if tier == "quick" else 150)]
    return cases


def build(case):
    rng = case_rng(ID, case["seed"], (case["kind"], case["k"]))
    kind = case["kind"]
    if kind.startswith("rg-"):
        sp = {"rg-cp": "cp", "rg-cpt": "cp-t", "rg-tucker": "tucker"}[kind]
        n = rng.randint(2, 5)
        alg = rng.choice(["rbt", "rbt2", "linear", "quadgraph"])
        if alg == "rbt":
            rg = RG.RandomBinaryTree(n, num_repetitions=1, seed=rng.randrange(50))
        elif alg == "rbt2":
            rg = RG.RandomBinaryTree(n, num_repetitions=rng.randint(2, 3), seed=rng.randrange(50))
        elif alg == "linear":
            rg = RG.LinearTree(n, num_repetitions=rng.randint(1, 2), randomize=True, seed=rng.randrange(50))
        else:
            rg = RG.QuadGraph((1, 2, 2))
        inp = rng.choice(["categorical", "categorical", "binomial"])
        ikw = {"num_categories": rng.randint(2, 5)} if inp == "categorical" else {"total_count": rng.randint(1, 3)}
        sm = parameterization_to_factory(Parameterization(activation="softmax", initialization="normal", initialization_kwargs={"stddev": 1.5}))
        nary = (lambda shape: mixing_weight_factory(shape, param_factory=sm)) if rng.random() < 0.5 else sm
        ni = rng.randint(1, 3)
        sc = rg.build_circuit(input_factory=name_to_input_layer_factory(inp, **ikw), sum_product=sp, sum_weight_factory=sm, nary_sum_weight_factory=nary,
                              num_input_units=ni, num_sum_units=ni if sp != "cp" else rng.randint(1, 3), num_classes=1)
        return rng, sc
    if kind in ("onehot", "branches", "gauss"):
        return rng, None
    prod = ("kronecker",) if kind == "gen-kronecker" else ("hadamard",)
    cfg = gen.GenCfg(nvars=rng.randint(2, 4), kinds=("cat", "binomial"), id_mode="sparse" if kind == "sparse" else "contiguous", monotonic=True,
                     weight_kinds=("softmax", "dirichlet"), cat_modes=("probs_softmax", "probs_raw", "logits_lsm"), prod_kinds=prod,
                     structured=(rng.random() < 0.5) and kind != "gen-shared", multi_part_prob=0.7 if kind == "gen-shared" else 0.4, max_reps=3 if kind in ("gen-mixing", "gen-shared") else 2, mixing_prob=0.9 if kind == "gen-mixing" else 0.0,
                     out_units=1, outputs=1, share_prob=0.8 if kind == "gen-shared" else 0.2, skip_sum_prob=0.0,
                     leaf_sum_prob=0.0 if kind == "gen-shared" else 0.3, max_units=2 if kind == "gen-shared" else 3)
    sc, meta = gen.gen_circuit(rng, cfg)
    return rng, sc


def domains_of(sc):
    dom = {}
    for sl in sc.input_layers:
        if isinstance(sl, L.CategoricalLayer):
            d = ("disc", sl.num_categories)
        elif isinstance(sl, L.BinomialLayer):
            d = ("disc", sl.total_count + 1)
        else:
            continue
        for v in sl.scope:
            dom[int(v)] = d
    return dom


def branches_circuit(rng):
    """The same input layers feed several branches of different kinds (a Hadamard / CP branch, a
    Kronecker / Tucker branch, a second Hadamard branch behind per-leaf sum layers) mixed at the root:
    a non-tree DAG in which every input module is read by more than one consumer."""
    from cirkit.symbolic.circuit import Circuit

    n = rng.randint(2, 3)
    K = rng.randint(1, 2)
    same = rng.random() < 0.7  # equal families and domain sizes: the input layers fold into one module
    ncat = rng.randint(2, 3)
    layers, in_layers = [], {}

    def add(l, ins=None):
        layers.append(l)
        if ins:
            in_layers[l] = list(ins)
        return l

    def sm(shape):
        return gen.weight_param(rng, "softmax", shape)

    ins = []
    for v in range(n):
        if same or rng.random() < 0.6:
            ins.append(add(L.CategoricalLayer(gen.Scope([v]), K, num_categories=ncat if same else rng.randint(2, 4))))
        else:
            ins.append(add(L.BinomialLayer(gen.Scope([v]), K, total_count=rng.randint(1, 2))))
    branches = []
    kinds = rng.sample(["hadamard", "kronecker", "leafsum-hadamard"], rng.randint(2, 3))
    for bk in kinds:
        if bk == "hadamard":
            pl = add(L.HadamardLayer(K, arity=n), ins)
        elif bk == "kronecker":
            pl = add(L.KroneckerLayer(K, arity=n), ins)
        else:
            mids = [add(L.SumLayer(K, K, arity=1, weight=sm((K, K))), [i]) for i in ins]
            pl = add(L.HadamardLayer(K, arity=n), mids)
        branches.append(add(L.SumLayer(pl.num_output_units, 1, arity=1, weight=sm((1, pl.num_output_units))), [pl]))
    root = add(L.SumLayer(1, 1, arity=len(branches), weight=sm((1, len(branches)))), branches)
    return Circuit(layers, in_layers, [root])


def gauss_circuit(rng):
    """Two Gaussian variables (stddev in [0.4, 1.2], means about N(0, 1.2)) and optionally one
    categorical variable; mixture of 1-3 products (Hadamard / Kronecker, optionally behind per-leaf
    sums).  Same-shaped Gaussian layers fold together under fold=True."""
    from cirkit.symbolic.circuit import Circuit
    from cirkit.symbolic.initializers import NormalInitializer

    K = rng.randint(1, 3)
    with_cat = rng.random() < 0.5
    ids = [0, 1, 2] if with_cat else [0, 1]
    cat_id = rng.choice(ids) if with_cat else None
    ncat = rng.randint(2, 3)
    layers, in_layers = [], {}

    def add(l, ins=None):
        layers.append(l)
        if ins:
            in_layers[l] = list(ins)
        return l

    def sm(shape):
        return gen.weight_param(rng, "softmax", shape)

    def inputs():
        out = []
        for v in ids:
            if v == cat_id:
                out.append(add(L.CategoricalLayer(gen.Scope([v]), K, num_categories=ncat)))
            else:
                mean = P.Parameter.from_input(P.TensorParameter(K, initializer=NormalInitializer(0.0, 1.2)))
                sd = P.Parameter.from_unary(P.ScaledSigmoidParameter((K,), vmin=0.4, vmax=1.2), P.TensorParameter(K, initializer=NormalInitializer()))
                out.append(add(L.GaussianLayer(gen.Scope([v]), K, mean=mean, stddev=sd)))
        return out

    shared = inputs()
    branches = []
    for _ in range(rng.randint(1, 3)):
        ins = shared if rng.random() < 0.5 else inputs()
        if rng.random() < 0.4:
            ins = [add(L.SumLayer(K, K, arity=1, weight=sm((K, K))), [i]) for i in ins]
        pl = add(L.HadamardLayer(K, arity=len(ins)) if rng.random() < 0.6 or K ** len(ins) > 9 else L.KroneckerLayer(K, arity=len(ins)), ins)
        branches.append(add(L.SumLayer(pl.num_output_units, 1, arity=1, weight=sm((1, pl.num_output_units))), [pl]))
    root = add(L.SumLayer(1, 1, arity=len(branches), weight=sm((1, len(branches)))), branches) if len(branches) > 1 else branches[0]
    cont = [v for v in ids if v != cat_id]
    return Circuit(layers, in_layers, [root]), cont, cat_id, ncat


def run_gauss(case) -> Result:
    """Samples of continuous / mixed circuits: cell frequencies (terciles x terciles x category)
    against the cell masses obtained by midpoint quadrature of the reference density."""
    res = Result()
    rng = case_rng(ID, case["seed"], (case["kind"], case["k"]))
    sc, cont, cat_id, ncat = gauss_circuit(rng)
    res.features |= structs.circuit_features(sc)
    res.features.add("continuous-variables")
    res.sig = short_hash(["gauss", __import__("vf.props.c01", fromlist=["x"]).struct_sig(sc)])
    ids = sorted(cont + ([cat_id] if cat_id is not None else []))
    G, lo, hi = 360, -12.0, 12.0
    h = (hi - lo) / G
    mid = lo + (np.arange(G) + 0.5) * h
    cats = list(range(ncat)) if cat_id is not None else [0]
    N1 = 20000
    for fold, opt in C.FLAGS:
        tag = f"gauss {C.flag_name(fold, opt)}"
        comp = C.new_compiler("sum-product", fold, opt)
        cc_ = C.compile_in(res, comp, sc, tag)
        if cc_ is None:
            continue
        res.features |= structs.compiled_features(cc_)
        oq = call(SamplingQuery, cc_)
        if not oq.ok:
            exc_violation(res, oq, f"SamplingQuery() [{tag}]")
            continue
        q = oq.value
        for s in range(case["nseeds"] + 1):
            if s == case["nseeds"]:
                tie.revalue(comp, sc, np.random.default_rng(4242 + case["k"]), "posonly")
                res.features.add("resample-after-update")
            if s in (0, case["nseeds"]):
                # reference cell masses under the current valuation
                gx, gy = np.meshgrid(mid, mid, indexing="ij")
                dens = []
                for cval in cats:
                    X = np.zeros((G * G, len(ids)))
                    X[:, ids.index(cont[0])] = gx.ravel()
                    X[:, ids.index(cont[1])] = gy.ravel()
                    if cat_id is not None:
                        X[:, ids.index(cat_id)] = cval
                    r, _ = C.reference(sc, comp, X)
                    dens.append(np.real(r[:, 0, 0]).reshape(G, G) * h * h)
                dens = np.stack(dens)  # (ncat, G, G)
                total = dens.sum()
                if abs(total - 1.0) > 1e-5 or np.any(dens < -1e-12):
                    res.note = f"reference mass {total:.6f}: circuit not normalised or grid too coarse; skipped"
                    res.status = "skip"
                    return res
                # tercile edges of each continuous marginal, aligned to grid edges
                edges = []
                for ax in (1, 2):
                    cdf = np.cumsum(dens.sum(axis=(0, 3 - ax)))
                    edges.append([int(np.searchsorted(cdf, t)) + 1 for t in (1 / 3, 2 / 3)])
                cellp = np.zeros((len(cats), 3, 3))
                bx = [0] + edges[0] + [G]
                by = [0] + edges[1] + [G]
                for i in range(3):
                    for j in range(3):
                        cellp[:, i, j] = dens[:, bx[i]:bx[i + 1], by[j]:by[j + 1]].sum(axis=(1, 2))
                probs = cellp.ravel() / cellp.sum()
                tx = [lo + e * h for e in edges[0]]
                ty = [lo + e * h for e in edges[1]]

            def cell_counts(samples):
                cols = samples if samples.shape[1] == len(ids) else samples[:, ids]
                ci = np.searchsorted(tx, cols[:, ids.index(cont[0])])
                cj = np.searchsorted(ty, cols[:, ids.index(cont[1])])
                if cat_id is not None:
                    cc = cols[:, ids.index(cat_id)]
                    if np.any(cc < 0) or np.any(cc >= ncat) or np.any(cc != np.round(cc)):
                        return None
                    cc = cc.astype(int)
                else:
                    cc = np.zeros(len(cols), dtype=int)
                return np.bincount((cc * 3 + ci) * 3 + cj, minlength=len(probs)).astype(np.float64)

            def chi2(counts, n):
                e = probs * n
                keep = e >= 5
                e2 = np.concatenate([e[keep], [e[~keep].sum()]]) if (~keep).any() else e
                c2 = np.concatenate([counts[keep], [counts[~keep].sum()]]) if (~keep).any() else counts
                c2, e2 = c2[e2 > 0], e2[e2 > 0]
                if len(e2) < 2:
                    return 0.0, 1.0
                st = float(((c2 - e2) ** 2 / e2).sum())
                return st, float(stats.chi2.sf(st, len(e2) - 1))

            torch.manual_seed(1000 * case["k"] + s)
            o = call(q, N1)
            if not o.ok:
                exc_violation(res, o, f"sampling [{tag}]", "exception-sampling")
                break
            samples = o.value[0].detach().numpy()
            if samples.shape != (N1, len(ids)):
                res.violate("sample-shape", f"[{tag}] samples of shape {samples.shape}, expected ({N1}, {len(ids)})")
                break
            if not np.all(np.isfinite(samples)):
                res.violate("sample-out-of-domain", f"[{tag}] non-finite sample values")
                break
            res.count("samples_checked", N1)
            counts = cell_counts(samples)
            if counts is None:
                res.violate("sample-out-of-domain", f"[{tag}] the categorical column holds values outside its domain")
                break
            st, p = chi2(counts, N1)
            res.count("chi2_tests")
            res.count("continuous_chi2_tests")
            if p < 1e-9:
                torch.manual_seed(777 + 1000 * case["k"] + s)
                o2 = call(q, 4 * N1)
                if o2.ok:
                    counts2 = cell_counts(o2.value[0].detach().numpy())
                    if counts2 is None:
                        res.violate("sample-out-of-domain", f"[{tag}] the categorical column holds values outside its domain")
                        break
                    st2, p2 = chi2(counts2, 4 * N1)
                    if p2 < 1e-9:
                        worst = int(np.argmax(np.abs(counts2 / (4 * N1) - probs)))
                        res.violate("distribution-mismatch", f"[{tag}] continuous cells (category x tercile x tercile): chi-square p={p:.1e} then p={p2:.1e} on an independent 4x sample; cell {worst}: frequency {counts2[worst] / (4 * N1):.4f} vs mass {probs[worst]:.4f}")
                        break
    return res


def onehot_circuit(rng):
    """Mixture of products of one-hot categoricals: category of variable v is code(v) = v + 1 (of
    n + 2 categories) so that every sample must be exactly (1, 2, ..., n) column-wise."""
    n = rng.randint(2, 5)
    ncat = n + 2
    layers, in_layers = [], {}
    K = rng.randint(1, 3)

    def hot(v):
        probs = np.full((K, ncat), 0.0)
        probs[:, v + 1] = 1.0
        return L.CategoricalLayer(gen.Scope([v]), K, num_categories=ncat, probs=P.Parameter.from_input(P.ConstantParameter(K, ncat, value=probs)))

    reg = gen.gen_region(rng, list(range(n)), max_parts=3, multi_part_prob=0.5)
    b = gen.CircuitBuilder(rng, gen.GenCfg(monotonic=True, weight_kinds=("softmax",), prod_kinds=("hadamard",), mixing_prob=0.3, skip_sum_prob=0.0, leaf_sum_prob=0.0, max_units=K))
    b.input_layer = lambda v, k: b._add(hot_k(v, k))

    def hot_k(v, k):
        probs = np.full((k, ncat), 0.0)
        probs[:, v + 1] = 1.0
        return L.CategoricalLayer(gen.Scope([v]), k, num_categories=ncat, probs=P.Parameter.from_input(P.ConstantParameter(k, ncat, value=probs)))

    out = b.get(reg, 1)
    return b.finish([out]), n


def run_case(case) -> Result:
    if case["kind"] == "gauss":
        return run_gauss(case)
    res = Result()
    rng, sc = build(case)
    kind = case["kind"]
    expected_cols = None
    if kind == "branches":
        sc = branches_circuit(rng)
        res.features.add("inputs-read-by-several-branches")
    if kind == "onehot":
        sc, n = onehot_circuit(rng)
        expected_cols = np.arange(1, n + 1)
        res.features.add("one-hot-attribution")
    res.features |= structs.circuit_features(sc)
    domains = domains_of(sc)
    ids = sorted(domains)
    if ids != list(range(len(ids))):
        res.features.add("sparse-scope")
    if any(d[1] > 2 for d in domains.values()):
        res.features.add("nonbinary")
    res.sig = short_hash([kind, __import__("vf.props.c01", fromlist=["x"]).struct_sig(sc)])
    pool = gen.all_assignments(domains, limit=3000)
    if pool is None:
        res.status = "skip"
        return res
    N1 = 20000
    for fold, opt in C.FLAGS:
        tag = f"{kind} {C.flag_name(fold, opt)}"
        comp = C.new_compiler("sum-product", fold, opt)
        cc_ = C.compile_in(res, comp, sc, tag)
        if cc_ is None:
            continue
        res.features |= structs.compiled_features(cc_)
        r, a = C.reference(sc, comp, pool)
        probs = np.real(r[:, 0, 0])
        if abs(probs.sum() - 1.0) > 1e-8 or np.any(probs < -1e-12):
            res.note = "generated circuit is not normalised (C12 territory); skipped"
            res.status = "skip"
            return res
        oq = call(SamplingQuery, cc_)
        if not oq.ok:
            exc_violation(res, oq, f"SamplingQuery() [{tag}]")
            continue
        q = oq.value
        key = {tuple(row[ids]): i for i, row in enumerate(pool)}
        for s in range(case["nseeds"] + 1):
            if s == case["nseeds"]:
                # last round: the same query and compiled circuit after an in-place parameter update
                tie.revalue(comp, sc, np.random.default_rng(4242 + case["k"]), "posonly")
                r, a = C.reference(sc, comp, pool)
                probs = np.real(r[:, 0, 0])
                if abs(probs.sum() - 1.0) > 1e-8 or np.any(probs < -1e-12) or expected_cols is not None:
                    break
                res.features.add("resample-after-update")
            torch.manual_seed(1000 * case["k"] + s)
            o = call(q, N1)
            if not o.ok:
                exc_violation(res, o, f"sampling [{tag}] (scope {ids})", "exception-sampling")
                break
            samples = o.value[0].detach().numpy()
            if samples.shape != (N1, len(ids)) and samples.shape != (N1, max(ids) + 1):
                res.violate("sample-shape", f"[{tag}] samples of shape {samples.shape}, expected ({N1}, {len(ids)})")
                break
            cols = samples if samples.shape[1] == len(ids) else samples[:, ids]
            res.count("samples_checked", N1)
            # E1: domain and support
            bad_dom = [v for j, v in enumerate(ids) if np.any(cols[:, j] < 0) or np.any(cols[:, j] >= domains[v][1]) or np.any(cols[:, j] != np.round(cols[:, j]))]
            if bad_dom:
                res.violate("sample-out-of-domain", f"[{tag}] columns of variables {bad_dom} hold values outside their domain")
                break
            if expected_cols is not None:
                if not np.all(cols == expected_cols[None, :]):
                    wrong = [ids[j] for j in range(len(ids)) if not np.all(cols[:, j] == expected_cols[j])]
                    res.violate("column-attribution", f"[{tag}] one-hot inputs: columns {wrong} are not filled from the input layer of their own variable (first sample {cols[0].tolist()})")
                    break
                continue
            idx = np.array([key.get(tuple(int(x) for x in row), -1) for row in cols])
            if np.any(idx < 0):
                res.violate("sample-out-of-domain", f"[{tag}] a sample is not a complete assignment of the domain")
                break
            counts = np.bincount(idx, minlength=len(pool)).astype(np.float64)
            if np.any((counts > 0) & (probs <= 0)):
                j = int(np.argmax((counts > 0) & (probs <= 0)))
                res.violate("sample-zero-probability", f"[{tag}] sample {pool[j][ids].tolist()} has probability 0 under the circuit")
                break
            # E3: chi-square, two-stage
            def chi2(counts, n):
                exp = probs * n
                order = np.argsort(exp)
                # pool small cells
                small = exp < 5
                if small.sum() > 0:
                    e2 = np.concatenate([exp[~small], [exp[small].sum()]])
                    c2 = np.concatenate([counts[~small], [counts[small].sum()]])
                else:
                    e2, c2 = exp, counts
                e2, c2 = e2[e2 > 0], c2[e2 > 0]
                if len(e2) < 2:
                    return 0.0, 1.0
                stat = float(((c2 - e2) ** 2 / e2).sum())
                return stat, float(stats.chi2.sf(stat, len(e2) - 1))

            st, p = chi2(counts, N1)
            res.count("chi2_tests")
            if p < 1e-9:
                torch.manual_seed(777 + 1000 * case["k"] + s)
                o2 = call(q, 4 * N1)
                if o2.ok:
                    s2 = o2.value[0].detach().numpy()
                    c2 = s2 if s2.shape[1] == len(ids) else s2[:, ids]
                    idx2 = np.array([key.get(tuple(int(x) for x in row), -1) for row in c2])
                    counts2 = np.bincount(idx2[idx2 >= 0], minlength=len(pool)).astype(np.float64)
                    st2, p2 = chi2(counts2, 4 * N1)
                    if p2 < 1e-9:
                        worst = int(np.argmax(np.abs(counts2 / (4 * N1) - probs)))
                        res.violate("distribution-mismatch", f"[{tag}] chi-square p={p:.1e} then p={p2:.1e} on an independent 4x sample; e.g. assignment {pool[worst][ids].tolist()}: frequency {counts2[worst] / (4 * N1):.4f} vs probability {probs[worst]:.4f}")
                        break
    return res
