"""C16 -- region-graph constructions are valid and yield well-formed circuits.

Monitor: an independent validator of the constructed region graph (root covers all variables;
partitions split their region into non-empty, pairwise disjoint regions covering it; bipartite;
one parent per partition), the structured-decomposability flag against a recomputation, a canonical
form comparison for dump -> load, and the independent structural model on every circuit built from
the graph (smooth, decomposable, scope, structured when the graph is, number of output units).
"""
from __future__ import annotations

import itertools
import os
import tempfile

import numpy as np
import torch

from cirkit.symbolic import layers as L
from cirkit.templates import region_graph as RG
from cirkit.templates.region_graph.graph import PartitionNode, RegionGraph, RegionNode
from cirkit.templates.utils import Parameterization, name_to_input_layer_factory, parameterization_to_factory

from vf import structs
from vf.common import Result, call, case_rng, exc_violation, short_hash
from vf.monitors import MonitorViolation

ID = "C16"
RULE = (
    "argument grids of the 7 construction algorithms: RandomBinaryTree(n<=9, depth None/0..max, reps 1-3, "
    "seeds), LinearTree(n<=7, reps, every ordering for n<=4 / random, randomize), FullyFactorized(n<=7, "
    "reps), QuadTree / QuadGraph (C<=2, H,W<=5, splits 2/4), PoonDomingos (shapes <= 1x4x4, delta scalar "
    "/ per-axis / list of lists, max_depth), ChowLiuTree (random categorical / Gaussian / heterogeneous "
    "data, every root); each graph validated, dumped and re-loaded, and built into circuits with cp / cp-t "
    "/ tucker and explicit sum / product factories x input units x sum units x classes x "
    "factorize_multivariate; invalid arguments must raise ValueError; distinct = canonical form of the graph"
)
EXHAUSTIVE_SUBSPACES = [
    "quick: RandomBinaryTree n<=6 x all depths x reps<=2; LinearTree all orderings n<=3; thorough: the full grids named in rule",
    "all 4 build modes (cp, cp-t, tucker, explicit factories) for every graph",
]
ASSUMPTIONS = ["validator and canonical form in this module are the definition of a valid region graph"]
FLOOR = {"alg:RandomBinaryTree": 1, "alg:LinearTree": 1, "alg:FullyFactorized": 1, "alg:QuadTree": 1, "alg:QuadGraph": 1, "alg:PoonDomingos": 1,
         "alg:ChowLiuTree": 1, "mode:explicit": 1, "mode:cp": 1, "mode:cp-t": 1, "mode:tucker": 1, "multi-partition-region": 1,
         "multivariate-leaf": 1, "roundtrip": 1, "invalid-args-refused": 1, "graphs_validated": 50, "circuits_built": 100}


def grids(tier, seed):
    q = tier == "quick"
    out = []
    for n in range(1, 7 if q else 10):
        maxd = int(np.ceil(np.log2(n))) if n > 1 else 0
        for depth in [None] + list(range(0, maxd + 1)):
            for reps in (1, 2) if q else (1, 2, 3):
                for s in range(2 if q else 15):
                    out.append(("RandomBinaryTree", dict(num_variables=n, depth=depth, num_repetitions=reps, seed=seed * 100 + s)))
    # repetitions with random splits: two repetitions may agree on an upper split and differ below
    for n in (4, 5, 6) if q else (4, 5, 6, 7, 8):
        for s in range(10 if q else 120):
            out.append(("RandomBinaryTree", dict(num_variables=n, depth=None, num_repetitions=2, seed=1000 + seed * 100 + s)))
            out.append(("LinearTree", dict(num_variables=n, num_repetitions=2, randomize=True, seed=seed * 100 + s)))
    for n in range(1, 5 if q else 8):
        orders = list(itertools.permutations(range(n))) if n <= (3 if q else 4) else [None, list(reversed(range(n)))]
        for o in orders:
            for reps in (1, 2):
                out.append(("LinearTree", dict(num_variables=n, num_repetitions=reps, ordering=None if o is None else list(o))))
        out.append(("LinearTree", dict(num_variables=n, num_repetitions=3, randomize=True, seed=seed)))
    for n in range(1, 5 if q else 8):
        for reps in (1, 2, 3):
            out.append(("FullyFactorized", dict(num_variables=n, num_repetitions=reps)))
    shapes = [(c, h, w) for c in (1, 2) for h in range(1, 4 if q else 6) for w in range(1, 4 if q else 6)]
    # elongated images: the halved sizes of the two axes differ by two or more at some level
    shapes += [(1, 1, 5), (1, 6, 2), (1, 2, 7)] if q else [(1, 1, 5), (1, 1, 8), (1, 2, 6), (1, 6, 3), (2, 4, 7), (1, 5, 2), (1, 9, 5), (1, 8, 16), (1, 3, 11), (2, 7, 1)]
    for sh in shapes:
        for sp in (2, 4):
            out.append(("QuadTree", dict(shape=sh, num_patch_splits=sp)))
        out.append(("QuadGraph", dict(shape=sh)))
    pd_shapes = [(1, h, w) for h in range(1, 4 if q else 5) for w in range(1, 4 if q else 5)] + ([] if q else [(2, 2, 2), (2, 3, 2)])
    for sh in pd_shapes:
        for delta in (1, 2, [1, 2], [[1, 1], [2, 2]], 1.5):
            for md in (None, 1, 2):
                out.append(("PoonDomingos", dict(shape=sh, delta=delta, max_depth=md)))
    for d in range(2, 5 if q else 6):
        # balanced full-factorial data: the estimated mutual information between groups is exactly 0
        out.append(("ChowLiuTree", dict(d=d, kind="factorial", root=None, dseed=seed + d)))
        out.append(("ChowLiuTree", dict(d=d, kind="factorial-gaussian", root=0, dseed=seed + d)))
    for d in range(2, 5 if q else 7):
        for kind in ("categorical", "gaussian", "mixed"):
            for root in [None] + list(range(d)):
                out.append(("ChowLiuTree", dict(d=d, kind=kind, root=root, dseed=seed + d)))
    # other dependence structures (the shape of the learned tree and the order in which variable ids
    # appear along it vary): independent columns, a Markov chain over a shuffled column order, two clusters
    for d in range(3, 6 if q else 8):
        for kind in ("independent", "chain", "chain-gaussian", "clusters"):
            for root in ([None, d - 1] if q else [None] + list(range(d))):
                for rep in range(1 if q else 8):
                    out.append(("ChowLiuTree", dict(d=d, kind=kind, root=root, dseed=seed + 31 * d + rep)))
    invalid = [
        ("RandomBinaryTree", dict(num_variables=0)), ("RandomBinaryTree", dict(num_variables=3, num_repetitions=0)),
        ("RandomBinaryTree", dict(num_variables=4, depth=3)), ("RandomBinaryTree", dict(num_variables=4, depth=-1)),
        ("LinearTree", dict(num_variables=0)), ("LinearTree", dict(num_variables=3, ordering=[0, 1, 1])), ("LinearTree", dict(num_variables=3, num_repetitions=0)),
        ("FullyFactorized", dict(num_variables=0)), ("FullyFactorized", dict(num_variables=2, num_repetitions=-1)),
        ("QuadTree", dict(shape=(1, 2, 2), num_patch_splits=3)),
    ]
    return out, invalid


def plan(tier, seed):
    g, invalid = grids(tier, seed)
    chunk = 12
    cases = [{"kind": "grid", "lo": i, "hi": min(i + chunk, len(g)), "seed": seed, "tier": tier} for i in range(0, len(g), chunk)]
    cases.append({"kind": "invalid", "seed": seed, "tier": tier})
    return cases


def construct(name, kw):
    if name == "ChowLiuTree":
        g = torch.Generator().manual_seed(kw["dseed"])
        d = kw["d"]
        n = 200
        if kw["kind"].startswith("factorial"):
            # every combination of d binary factors equally often (two replicates)
            combos = torch.tensor(list(itertools.product([0, 1], repeat=d)) * 2)
            if kw["kind"] == "factorial":
                return RG.ChowLiuTree(combos.long(), "categorical", root=kw["root"], num_categories=2)
            return RG.ChowLiuTree(combos.double() * 2.0 - 1.0, "gaussian", root=kw["root"])
        if kw["kind"] in ("independent", "chain", "chain-gaussian", "clusters"):
            if kw["kind"] == "independent":
                return RG.ChowLiuTree(torch.randint(0, 3, (n, d), generator=g), "categorical", root=kw["root"], num_categories=3)
            perm = torch.randperm(d, generator=g).tolist()
            z = torch.zeros(n, d)
            if kw["kind"].startswith("chain"):
                prev = torch.randn(n, generator=g)
                for v in perm:
                    prev = 0.8 * prev + 0.6 * torch.randn(n, generator=g)
                    z[:, v] = prev
            else:
                a, b = torch.randn(n, generator=g), torch.randn(n, generator=g)
                for i, v in enumerate(perm):
                    z[:, v] = (a if i % 2 == 0 else b) + 0.5 * torch.randn(n, generator=g)
            if kw["kind"] == "chain-gaussian":
                return RG.ChowLiuTree(z, "gaussian", root=kw["root"])
            return RG.ChowLiuTree((z > 0).long() + (z > 1).long(), "categorical", root=kw["root"], num_categories=3)
        z = torch.randn(n, d, generator=g)
        z = z + 0.7 * z[:, [0]]  # some dependence
        if kw["kind"] == "categorical":
            data = (z > 0).long() + (z > 1).long()
            return RG.ChowLiuTree(data, "categorical", root=kw["root"], num_categories=3)
        if kw["kind"] == "gaussian":
            return RG.ChowLiuTree(z, "gaussian", root=kw["root"])
        types = ["categorical" if i % 2 == 0 else "gaussian" for i in range(d)]
        data = z.clone()
        for i in range(d):
            if i % 2 == 0:
                data[:, i] = ((z[:, i] > 0).long() + (z[:, i] > 1).long()).float()
        return RG.ChowLiuTree(data, types, root=kw["root"])
    fn = getattr(RG, name)
    kw = dict(kw)
    if name in ("RandomBinaryTree", "LinearTree", "FullyFactorized"):
        n = kw.pop("num_variables")
        return fn(n, **kw)
    sh = kw.pop("shape")
    return fn(sh, **kw)


def expected_vars(name, kw):
    if name == "ChowLiuTree":
        return kw["d"]
    if "num_variables" in kw:
        return kw["num_variables"]
    c, h, w = kw["shape"]
    return c * h * w


def validate(rg: RegionGraph, nvars: int):
    """Independent validation; returns a list of problems."""
    probs = []
    nodes = list(rg.nodes)
    ins = {n: list(rg.node_inputs(n)) for n in nodes}
    sc = lambda n: frozenset(int(v) for v in n.scope)
    roots = list(rg.outputs)
    if not roots:
        probs.append("no root")
    allv = frozenset().union(*[sc(r) for r in roots]) if roots else frozenset()
    if allv != frozenset(range(nvars)):
        probs.append(f"roots cover {sorted(allv)} instead of 0..{nvars - 1}")
    parents = {}
    for n in nodes:
        for ch in ins[n]:
            parents.setdefault(ch, []).append(n)
        if isinstance(n, PartitionNode):
            kids = ins[n]
            if not kids:
                probs.append("partition without children")
            if any(not isinstance(k, RegionNode) for k in kids):
                probs.append("partition child is not a region")
            ks = [sc(k) for k in kids]
            if any(not s for s in ks):
                probs.append("empty child region")
            if sum(len(s) for s in ks) != len(frozenset().union(*ks)) if ks else False:
                probs.append("partition children overlap")
            if ks and frozenset().union(*ks) != sc(n):
                probs.append("partition children do not cover the region")
        elif isinstance(n, RegionNode):
            for k in ins[n]:
                if not isinstance(k, PartitionNode):
                    probs.append("region child is not a partition")
                elif sc(k) != sc(n):
                    probs.append("partition scope differs from its region")
        else:
            probs.append("unknown node type")
    for n in nodes:
        if isinstance(n, PartitionNode) and len(parents.get(n, [])) != 1:
            probs.append("partition with != 1 parent")
        if any(ch not in ins for ch in ins[n]):
            probs.append("dangling child")
    return probs


def model_structured(rg) -> bool:
    dec = {}
    for p in rg.partition_nodes:
        key = frozenset(int(v) for v in p.scope)
        dec.setdefault(key, set()).add(frozenset(frozenset(int(v) for v in r.scope) for r in rg.node_inputs(p)))
    return all(len(v) == 1 for v in dec.values())


def canonical(rg):
    """Canonical form up to node identity (graph isomorphism respecting scopes): every region node is
    described by the recursive unfolding below it -- (scope, sorted unfoldings of its partitions), a
    partition by (scope, sorted unfoldings of its child regions) -- so distinct region nodes that share
    a scope (one per repetition) are told apart by what hangs below them.  The form is the multiset of
    unfoldings of all region nodes (dangling ones included), of the roots, and the node counts."""
    memo = {}

    def canon(node):
        if id(node) not in memo:
            sc_ = tuple(sorted(int(v) for v in node.scope))
            memo[id(node)] = (sc_, tuple(sorted(canon(ch) for ch in rg.node_inputs(node))))
        return memo[id(node)]

    regions = sorted(canon(r) for r in rg.region_nodes)
    roots = sorted(canon(r) for r in rg.outputs)
    fanout = sorted((tuple(sorted(int(v) for v in n_.scope)), len(rg.node_outputs(n_))) for n_ in rg.nodes)
    return regions, roots, len(list(rg.region_nodes)), len(list(rg.partition_nodes)), fanout


def build_modes(rng):
    modes = []
    for sp in ("cp", "cp-t", "tucker"):
        modes.append((sp, dict(sum_product=sp)))
    def sum_factory(ni, no):
        return L.SumLayer(ni, no)
    def prod_factory(ni, arity):
        return L.HadamardLayer(ni, arity=arity)
    modes.append(("explicit", dict(sum_factory=sum_factory, prod_factory=prod_factory)))

    def kron_factory(ni, arity):
        return L.KroneckerLayer(ni, arity=arity)  # a product factory that changes the unit count

    modes.append(("explicit-kron", dict(sum_factory=sum_factory, prod_factory=kron_factory)))
    return modes


def check_graph(res: Result, rng, name, kw):
    tag = f"{name}({kw})"
    o = call(construct, name, kw)
    if not o.ok:
        exc_violation(res, o, f"{tag}: construction raised on valid arguments", "construction-raised")
        return
    rg = o.value
    nv = expected_vars(name, kw)
    res.features.add("alg:" + name)
    res.count("graphs_validated")
    probs = validate(rg, nv)
    if probs:
        res.violate("invalid-region-graph", f"{tag}: {probs[:3]}")
        return
    m = model_structured(rg)
    if rg.is_structured_decomposable != m:
        res.violate("rg-structured-flag", f"{tag}: is_structured_decomposable={rg.is_structured_decomposable}, partitions say {m}")
    if any(len(rg.region_inputs(r)) > 1 for r in rg.region_nodes):
        res.features.add("multi-partition-region")
    multivariate_leaf = any(len(r.scope) > 1 and not rg.region_inputs(r) for r in rg.region_nodes)
    if multivariate_leaf:
        res.features.add("multivariate-leaf")
    # dump -> load
    d = os.path.join(os.path.dirname(os.path.dirname(os.path.dirname(os.path.abspath(__file__)))), "replays", ".work")
    os.makedirs(d, exist_ok=True)
    fd, path = tempfile.mkstemp(suffix=".json", dir=d)
    os.close(fd)
    try:
        o = call(lambda: (rg.dump(path), RegionGraph.load(path))[1])
        if not o.ok:
            exc_violation(res, o, f"{tag}: dump/load")
        else:
            res.features.add("roundtrip")
            if canonical(o.value) != canonical(rg):
                res.violate("roundtrip-changed-graph", f"{tag}: load(dump(rg)) is not the same graph")
            elif o.value.is_structured_decomposable != rg.is_structured_decomposable:
                res.violate("roundtrip-changed-flag", f"{tag}: structured flag changed by dump/load")
    finally:
        if os.path.exists(path):
            os.remove(path)
    # circuits
    root_is_leaf = all(not rg.region_inputs(r) for r in rg.outputs)
    for mode, mkw in build_modes(rng):
        if mode in ("cp-t", "tucker") or True:
            pass
        ni, ns, nc = rng.choice([1, 2, 3]), rng.choice([1, 2, 3]), rng.choice([1, 2, 3])
        fm = rng.random() < 0.7
        if multivariate_leaf and not fm:
            continue  # no multivariate input layer exists in the library: must be factorized
        if mode in ("cp-t", "tucker", "explicit") and ni != ns:
            ns = ni  # documented: these abstractions need inputs with the same number of units
        inp = name_to_input_layer_factory(rng.choice(["categorical", "embedding", "gaussian", "binomial"]), **({"num_categories": 3} if False else {}))
        kind = rng.choice(["categorical", "embedding", "gaussian", "binomial"])
        inp = name_to_input_layer_factory(kind, **({"num_categories": 3} if kind == "categorical" else {"num_states": 3} if kind == "embedding" else {"total_count": 2} if kind == "binomial" else {}))
        o = call(rg.build_circuit, input_factory=inp, num_input_units=ni, num_sum_units=ns, num_classes=nc, factorize_multivariate=fm, **mkw)
        res.features.add("mode:" + mode)
        btag = f"{tag} build({mode}, in={ni}, sum={ns}, classes={nc}, factorize={fm})"
        if not o.ok:
            if isinstance(o.exc, MonitorViolation):
                exc_violation(res, o, btag)
            else:
                res.violate(f"build-raised:{o.exc_type}", f"{btag}: {o.exc_type}: {str(o.exc)[:200]} @ {o.where()}", mode=mode, where=o.where())
            continue
        sc = o.value
        res.count("circuits_built")
        if not structs.is_smooth(sc) or not structs.is_decomposable(sc):
            res.violate("built-circuit-not-smooth-decomposable", btag)
        if structs.circuit_scope(sc) != frozenset(range(nv)):
            res.violate("built-circuit-wrong-scope", f"{btag}: scope {sorted(structs.circuit_scope(sc))}")
        if m and not structs.same_split_everywhere(sc):
            res.violate("built-circuit-not-structured", f"{btag}: graph is structured-decomposable, circuit is not")
        if m and not sc.is_structured_decomposable:
            res.violate("built-circuit-flag-not-structured", f"{btag}: circuit.is_structured_decomposable False for a structured graph")
        if len(sc.outputs) != len(list(rg.outputs)):
            res.violate("built-circuit-outputs", f"{btag}: {len(sc.outputs)} outputs for {len(list(rg.outputs))} roots")
        for out in sc.outputs:
            if out.num_output_units != nc:
                note = " [root region is a leaf, sum-product abstraction]" if root_is_leaf and mode != "explicit" else ""
                res.violate("built-circuit-output-units", f"{btag}: output layer has {out.num_output_units} units, requested {nc}{note}", root_is_leaf=root_is_leaf)


def run_case(case) -> Result:
    res = Result()
    rng = case_rng(ID, case["seed"], (case["kind"], case.get("lo")))
    g, invalid = grids(case["tier"], case["seed"])
    if case["kind"] == "invalid":
        for name, kw in invalid:
            o = call(construct, name, kw)
            res.features.add("invalid-args-refused")
            if o.ok:
                res.violate("invalid-args-accepted", f"{name}({kw}) returned a region graph")
            elif not isinstance(o.exc, ValueError):
                res.violate("invalid-args-wrong-exception", f"{name}({kw}) raised {o.exc_type} instead of ValueError")
        res.sig = "invalid"
        return res
    sigs = []
    for name, kw in g[case["lo"] : case["hi"]]:
        check_graph(res, rng, name, kw)
        sigs.append((name, str(kw)))
    res.sig = short_hash(sigs)
    res.obs["distinct_graphs"] = len(sigs)
    return res
