"""C17 -- parameter initialisation follows the symbolic initialiser regardless of folding.

Monitor: direct inspection, through compiler.state.retrieve_compiled_parameter, of the registry slice
of every symbolic tensor parameter after compile and after each later reset_parameters(); fold
invariance: the same predicates must hold whether the parameter was folded alone, with parameters
using other initialisers, or not at all.
"""
from __future__ import annotations

import numpy as np
import torch

from cirkit.symbolic import layers as L
from cirkit.symbolic import parameters as P
from cirkit.symbolic.circuit import Circuit
from cirkit.symbolic.dtypes import DataType
from cirkit.symbolic.initializers import ConstantTensorInitializer, DirichletInitializer, NormalInitializer, UniformInitializer
from cirkit.utils.scope import Scope

from vf import cc as C, structs, tie
from vf.common import Result, call, case_rng, exc_violation, short_hash

ID = "C17"
RULE = (
    "symbolic tensor parameters with every initialiser (constant scalar / ndarray, Dirichlet with scalar "
    "and list alpha on every axis in both spellings, uniform, normal) x shapes of rank 1-3 x dtypes "
    "(integer / real / complex) x learnable flag, placed in 1-5 structurally identical layers so that they "
    "fold in groups of size 1-5 (mixing different initialisers inside one fold group), compiled under the "
    "4 flag combinations and reset 1-3 more times; each slice checked after every (re-)initialisation; "
    "distinct = (initialiser kind, shape, axis, group size, flags)"
)
EXHAUSTIVE_SUBSPACES = ["every axis (positive and negative spelling) of every generated Dirichlet shape", "all 4 (fold, optimize) combinations"]
ASSUMPTIONS = ["normal / uniform moments are tested at |z| > 7 on the entries pooled over the case (false-alarm probability < 1e-11 per test)"]
FLOOR = {"dirichlet:axis0:fold>1": 1, "dirichlet:axis-nonlast": 1, "ndarray:fold>1": 1, "reset-after-fold": 1, "init:normal": 1, "init:uniform": 1,
         "init:constant-scalar": 1, "init:constant-ndarray": 1, "init:dirichlet": 1, "nonlearnable": 1, "slices_checked": 300, "rank3": 1, "mixed-group": 1}


def plan(tier, seed):
    n = 200 if tier == "quick" else 19200
    return [{"kind": "case", "k": k, "seed": seed} for k in range(n)]


def make_leaf(rng, shape, nrng, force=None):
    """Returns (TensorParameter, spec) with spec describing what its slice must satisfy."""
    kind = force or rng.choice(["normal", "uniform", "const", "ndarray", "dirichlet", "dirichlet"])
    learnable = rng.random() < 0.8
    if kind == "normal":
        mean, std = round(rng.uniform(-2, 2), 2), round(rng.uniform(0.1, 2.0), 2)
        return P.TensorParameter(*shape, initializer=NormalInitializer(mean, std), learnable=learnable), dict(kind=kind, mean=mean, std=std, learnable=learnable, dtype="real")
    if kind == "uniform":
        a = round(rng.uniform(-2, 1), 2)
        b = round(a + rng.uniform(0.1, 2.0), 2)
        return P.TensorParameter(*shape, initializer=UniformInitializer(a, b), learnable=learnable), dict(kind=kind, a=a, b=b, learnable=learnable, dtype="real")
    if kind == "const":
        v = rng.choice([0.0, 1.0, -2.5, 3, 1 + 2j])
        return P.ConstantParameter(*shape, value=v), dict(kind=kind, value=v, learnable=False, dtype={int: "integer", float: "real", complex: "complex"}[type(v)])
    if kind == "ndarray":
        dt = rng.choice(["real", "real", "integer", "complex", "float32"])
        if dt == "integer":
            v = nrng.integers(-5, 5, size=shape)
        elif dt == "complex":
            v = nrng.normal(size=shape) + 1j * nrng.normal(size=shape)
        elif dt == "float32":
            v = nrng.normal(size=shape).astype(np.float32)
        else:
            v = nrng.normal(size=shape)
        if rng.random() < 0.5:
            return P.ConstantParameter(*shape, value=v), dict(kind=kind, value=v, learnable=False, dtype="real" if dt == "float32" else dt)
        # an explicit tensor parameter with an ndarray initialiser (learnable or not)
        dtype = {"real": DataType.REAL, "float32": DataType.REAL, "integer": DataType.INTEGER, "complex": DataType.COMPLEX}[dt]
        if dt == "integer":
            learnable = False
        return P.TensorParameter(*shape, initializer=ConstantTensorInitializer(v), learnable=learnable, dtype=dtype), dict(kind=kind, value=v, learnable=learnable, dtype="real" if dt == "float32" else dt)
    axis_pos = rng.randrange(len(shape))
    axis = axis_pos if rng.random() < 0.5 else axis_pos - len(shape)
    if rng.random() < 0.5:
        alpha = round(rng.uniform(0.3, 3.0), 2)
    else:
        alpha = [round(rng.uniform(0.3, 3.0), 2) for _ in range(shape[axis_pos])]
    return P.TensorParameter(*shape, initializer=DirichletInitializer(alpha, axis=axis), learnable=learnable), dict(kind="dirichlet", axis=axis_pos, axis_arg=axis, learnable=learnable, dtype="real")


def check_slice(res: Result, comp, leaf, spec, tag, pooled):
    res.count("slices_checked")
    o = call(comp.state.retrieve_compiled_parameter, leaf)
    if not o.ok:
        exc_violation(res, o, f"{tag}: parameter not in the compiler map")
        return
    t, i = o.value
    pt = t._ptensor
    v = pt.detach()[i].numpy()
    if tuple(v.shape) != tuple(leaf.shape):
        res.violate("slice-shape", f"{tag}: slice shape {v.shape} != {leaf.shape}")
        return
    want_dtype = {"real": torch.float64, "integer": torch.int64, "complex": torch.complex128}[spec["dtype"]]
    if pt.dtype != want_dtype:
        res.violate("dtype", f"{tag}: dtype {pt.dtype}, declared {spec['dtype']}")
    if pt.requires_grad and not spec["learnable"]:
        res.violate("requires-grad-on-constant", f"{tag}: non-learnable parameter requires gradients")
    k = spec["kind"]
    if k == "const":
        if not np.all(v == np.asarray(spec["value"]).astype(v.dtype)):
            res.violate("constant-not-copied", f"{tag}: scalar constant {spec['value']} not copied exactly: {v.ravel()[:4]}")
    elif k == "ndarray":
        want = np.asarray(spec["value"]).astype(v.dtype)
        if not np.array_equal(v, want):
            res.violate("ndarray-not-copied", f"{tag}: ndarray initialiser not copied exactly into its slice (max diff {np.abs(v - want).max()})")
    elif k == "dirichlet":
        if not np.all(v > 0) or not np.allclose(v.sum(axis=spec["axis"]), 1.0, atol=1e-6):
            sums = {ax: float(np.abs(v.sum(axis=ax) - 1).max()) for ax in range(v.ndim)}
            res.violate("dirichlet-not-normalised", f"{tag}: Dirichlet(axis={spec['axis_arg']}) slice does not sum to one along the declared axis {spec['axis']} (max |sum-1| per axis: {sums})", axis=spec["axis"])
    elif k == "uniform":
        if not (np.all(v >= spec["a"]) and np.all(v <= spec["b"])):
            res.violate("uniform-out-of-bounds", f"{tag}: uniform({spec['a']},{spec['b']}) sample outside its bounds: [{v.min()}, {v.max()}]")
        pooled.setdefault("uniform", []).append(((v - spec["a"]) / (spec["b"] - spec["a"])).ravel())
    elif k == "normal":
        pooled.setdefault("normal", []).append(((v - spec["mean"]) / spec["std"]).ravel())


def run_case(case) -> Result:
    res = Result()
    rng = case_rng(ID, case["seed"], ("case", case["k"]))
    nrng = np.random.default_rng(rng.getrandbits(32))
    rank = rng.choice([1, 2, 2, 3])
    group = rng.randint(1, 5)
    shape = tuple(rng.randint(1, 4) for _ in range(rank))
    if rank == 2:
        shape = (shape[0], max(2, shape[1]))
    if rank == 3:
        res.features.add("rank3")
    same_kind = rng.choice([None, None, "dirichlet", "ndarray"])
    leaves, specs = [], []
    layers, in_layers, outs = [], {}, []
    for g in range(group):
        leaf, spec = make_leaf(rng, shape, nrng, force=same_kind)
        # all members of one fold group must agree on shape / dtype / requires_grad: keep those that
        # do in one circuit; others simply form their own groups (also interesting)
        leaves.append(leaf)
        specs.append(spec)
        p = P.Parameter.from_input(leaf)
        cx = spec["dtype"] == "complex"
        if rank == 1:
            il = L.ConstantValueLayer(shape[0], log_space=False, value=p)
            layers.append(il)
            outs.append(il)
        else:
            if rank == 3:
                ax = rng.randrange(3)
                p = P.Parameter.from_unary(P.ReduceSumParameter(shape, axis=ax), leaf)
            ko, ki = p.shape
            eye = P.Parameter.from_input(P.ConstantParameter(max(ki, 2), max(ki, 2), value=np.eye(max(ki, 2))))
            if ki < 2:
                p = P.Parameter.from_binary(P.KroneckerParameter(p.shape, (1, 2)), p, P.Parameter.from_input(P.ConstantParameter(1, 2, value=1.0)))
                ko, ki = p.shape
            il = L.EmbeddingLayer(Scope([g]), ki, num_states=ki, weight=eye)
            sl = L.SumLayer(ki, ko, arity=1, weight=p)
            layers += [il, sl]
            in_layers[sl] = [il]
            outs.append(sl)
    kos = {o.num_output_units for o in outs}
    if len(kos) > 1:
        res.status = "skip"
        return res
    sc = Circuit(layers, in_layers, outs)
    kinds = sorted({s["kind"] for s in specs})
    for s in specs:
        res.features.add({"const": "init:constant-scalar", "ndarray": "init:constant-ndarray"}.get(s["kind"], "init:" + s["kind"]))
        if not s["learnable"]:
            res.features.add("nonlearnable")
        if s["kind"] == "dirichlet" and s["axis"] != rank - 1:
            res.features.add("dirichlet:axis-nonlast")
    if len(kinds) > 1:
        res.features.add("mixed-group")
    res.sig = short_hash([kinds, shape, group, [s.get("axis") for s in specs]])
    any_cx = any(s["dtype"] == "complex" for s in specs)
    any_int = any(s["dtype"] == "integer" for s in specs)
    sr = "complex-lse-sum" if any_cx else "sum-product"
    pooled = {}
    for fold, opt in C.FLAGS:
        tag0 = f"shape={shape} group={group} kinds={kinds} {C.flag_name(fold, opt)}"
        comp = C.new_compiler(sr, fold, opt)
        o = call(comp.compile, sc)
        if not o.ok:
            exc_violation(res, o, f"{tag0}: compile (initialisation)", "exception-init")
            continue
        cc_ = o.value
        folded_sizes = []
        for leaf, spec in zip(leaves, specs):
            t, i = comp.state.retrieve_compiled_parameter(leaf)
            folded_sizes.append(t.num_folds)
            if t.num_folds > 1:
                if spec["kind"] == "dirichlet" and spec["axis"] == 0:
                    res.features.add("dirichlet:axis0:fold>1")
                if spec["kind"] == "ndarray":
                    res.features.add("ndarray:fold>1")
        for leaf, spec in zip(leaves, specs):
            check_slice(res, comp, leaf, spec, f"{tag0} after compile ({spec['kind']})", pooled)
        for r in range(rng.randint(1, 3)):
            # a reset must re-initialise: overwrite every tensor with garbage first
            with torch.no_grad():
                for p_ in cc_.parameters():
                    p_.fill_(-7)
            o = call(cc_.reset_parameters)
            if not o.ok:
                exc_violation(res, o, f"{tag0}: reset_parameters #{r + 1}", "exception-reset")
                break
            if max(folded_sizes) > 1:
                res.features.add("reset-after-fold")
            for leaf, spec in zip(leaves, specs):
                check_slice(res, comp, leaf, spec, f"{tag0} after reset #{r + 1} ({spec['kind']})", pooled)
        if res.violations:
            break
    # moment tests on the pooled standardised entries
    for k, chunks in pooled.items():
        z = np.concatenate(chunks)
        n = z.size
        if n < 200:
            continue
        if k == "normal":
            zm = z.mean() * np.sqrt(n)
            zv = (z.var() - 1.0) / np.sqrt(2.0 / n)
        else:
            zm = (z.mean() - 0.5) / np.sqrt(1.0 / 12.0 / n)
            zv = (z.var() - 1.0 / 12.0) / np.sqrt((1.0 / 80.0 - 1.0 / 144.0) / n)
        res.count("moment_tests", 2)
        if abs(zm) > 7 or abs(zv) > 7:
            res.violate("moments", f"{k} samples: standardised mean z={zm:.1f}, variance z={zv:.1f} over {n} entries")
    return res
