"""C18 -- compiler registry and pipeline context stay coherent over any call history.

Monitor: model-based trace checker.  The model is a stack of context ids plus, per context, a
bijection symbolic-id <-> compiled-id and the list of compile events.  A generated history is executed
step by step against the real PipelineContext objects; after EACH step the checker compares object
identities, both lookup directions, the active context / operator registry (contextvars) with the
model's top of stack, and the compile-event log (wrapper on TorchCompiler._compile_circuit): each
symbolic circuit compiled exactly once per context and every operand before its consumer.
"""
from __future__ import annotations

import asyncio
import threading

import numpy as np

import cirkit.pipeline as PL
import cirkit.symbolic.functional as SF
from cirkit.backend.torch.compiler import TorchCompiler
from cirkit.symbolic.registry import OPERATOR_REGISTRY
from cirkit.utils.scope import Scope

from vf import cc as C, gen, pipes, structs
from vf.common import Result, call, case_rng, exc_violation, short_hash
from vf.monitors import MonitorViolation

ID = "C18"
RULE = (
    "random call histories of 20-120 steps over {new context with random flags, enter, exit, exit by an "
    "exception (ValueError / KeyError / KeyboardInterrupt-like BaseException), compile, recompile, "
    "module-level and method operators on compiled circuits (integrate / multiply / differentiate / "
    "conjugate / concatenate), lookups in both directions, lookups of foreign circuits}; sequential reuse "
    "of one context object, nesting of distinct objects to depth 5; the same histories inside threads "
    "and asyncio tasks (isolation); distinct = history signature; non-trivial = >= 2 contexts and >= 1 "
    "operator step"
    " Also: compile-derived-fresh (a*conj(a), a*(a*b), conj(a*b), cat(a, conj(a)) compiled in a fresh context), custom operator rules owned by a context for conjugate / integrate / multiply / differentiate through both entry points;"
)
EXHAUSTIVE_SUBSPACES = ["state compared after every single step of every history"]
ASSUMPTIONS = ["re-entering a context object that is already active is excluded (the property says so)"]
FLOOR = {"compile-derived-fresh": 1, "custom-rule-inactive": 1, "custom-rule:integrate": 1, "custom-rule:multiply": 1, "custom-rule:conjugate": 1, "exc-exit-depth>=2": 1, "ctx-reused": 1, "op-on-earlier-compiled": 1, "nest-depth>=3": 1, "foreign-lookup": 1,
         "steps_checked": 500, "compile_events": 50, "threads": 1, "asyncio": 1}

_events = []  # (compiler id, symbolic circuit id) in compile order (this thread only: histories are sequential)
_tl = threading.local()
_patched = False


def _patch():
    global _patched
    if _patched:
        return
    _patched = True
    orig = TorchCompiler._compile_circuit

    def wrapped(self, sc):
        log = getattr(_tl, "events", None)
        if log is not None:
            log.append((id(self), id(sc)))
        return orig(self, sc)

    TorchCompiler._compile_circuit = wrapped


class Boom(BaseException):
    """A BaseException escaping a with-block (like KeyboardInterrupt)."""


def plan(tier, seed):
    n = 140 if tier == "quick" else 10800
    cases = [{"kind": "seq", "k": k, "seed": seed} for k in range(n)]
    cases += [{"kind": "threads", "k": k, "seed": seed} for k in range(4 if tier == "quick" else 360)]
    cases += [{"kind": "asyncio", "k": k, "seed": seed} for k in range(4 if tier == "quick" else 360)]
    return cases


class Model:
    def __init__(self, default_ctx, default_reg):
        self.stack = []  # entered contexts (objects)
        self.default_ctx = default_ctx
        self.default_reg = default_reg
        self.maps = {}  # id(ctx) -> {id(sc): cc}
        self.scs = {}  # id(sc) -> sc (keep alive)

    def top(self):
        return self.stack[-1] if self.stack else self.default_ctx

    def top_reg(self):
        return self.stack[-1]._op_registry if self.stack else self.default_reg  # pylint: disable=protected-access


def base_circuits(rng):
    out = []
    for kinds in (("cat", "embedding"), ("poly",), ("gaussian", "cat")):
        cfg = gen.GenCfg(nvars=rng.randint(1, 3), kinds=kinds, structured=True, max_units=2, out_units=1, max_reps=1, leaf_sum_prob=0.0, skip_sum_prob=0.0,
                         prod_kinds=("hadamard",))
        (a, b), meta = gen.gen_compatible_pair(rng, cfg, cfg)
        out.append((a, b, kinds))
    return out


def pipes_all(sc):
    from vf.tie import pipeline_circuits

    return pipeline_circuits(sc)


def check_state(res: Result, m: Model, step: str):
    res.count("steps_checked")
    act = PL._PIPELINE_CONTEXT.get()  # pylint: disable=protected-access
    if act is not m.top():
        res.violate("active-context-wrong", f"after {step}: active pipeline context is not the one on top of the model stack (depth {len(m.stack)})")
    if OPERATOR_REGISTRY.get() is not m.top_reg():
        res.violate("active-registry-wrong", f"after {step}: active operator registry is not the one of the active context (depth {len(m.stack)})")
    # bijection, both directions, for every context ever created
    for ctx_id, mp in m.maps.items():
        ctx = mp["__ctx__"]
        seen_cc = {}
        for k, cc_ in mp.items():
            if k == "__ctx__":
                continue
            sc = m.scs[k]
            if not ctx.is_compiled(sc) or ctx.get_compiled_circuit(sc) is not cc_ or ctx[sc] is not cc_:
                res.violate("registry-forward-wrong", f"after {step}: symbolic -> compiled lookup changed")
            if not ctx.has_symbolic(cc_) or ctx.get_symbolic_circuit(cc_) is not sc:
                res.violate("registry-backward-wrong", f"after {step}: compiled -> symbolic lookup inconsistent")
            if id(cc_) in seen_cc:
                res.violate("registry-not-injective", f"after {step}: two symbolic circuits map to one compiled circuit")
            seen_cc[id(cc_)] = k


def run_history(res: Result, rng, nsteps: int, tag: str):
    _patch()
    _tl.events = []
    default_ctx = PL._PIPELINE_CONTEXT.get()  # pylint: disable=protected-access
    default_reg = OPERATOR_REGISTRY.get()
    m = Model(default_ctx, default_reg)
    bases = base_circuits(rng)
    ctxs = []
    sig = []

    def new_ctx():
        ctx = PL.PipelineContext(backend="torch", semiring=rng.choice(["sum-product", "lse-sum", "complex-lse-sum"]), fold=rng.random() < 0.5, optimize=rng.random() < 0.5)
        ctxs.append(ctx)
        m.maps[id(ctx)] = {"__ctx__": ctx}
        return ctx

    def record(ctx, sc, cc_):
        mp = m.maps.setdefault(id(ctx), {"__ctx__": ctx})
        if id(sc) in mp and mp[id(sc)] is not cc_:
            res.violate("recompile-returned-different-object", f"{tag}: compiling the same symbolic circuit again returned a different object")
        mp[id(sc)] = cc_
        m.scs[id(sc)] = sc
        # operands are registered too
        if sc.operation is not None:
            for op in sc.operation.operands:
                if ctx.is_compiled(op):
                    mp.setdefault(id(op), ctx.get_compiled_circuit(op))
                    m.scs[id(op)] = op

    new_ctx()
    for step in range(nsteps):
        action = rng.choices(["new", "enter", "exit", "exc-exit", "compile", "recompile", "op", "lookup-foreign", "module-op", "compile-derived-fresh", "custom-rule"],
                             weights=[2, 5, 4, 3, 6, 3, 8, 2, 5, 3, 4])[0]
        sig.append(action)
        name = f"{tag} step {step} {action}"
        try:
            if action == "new":
                new_ctx()
            elif action == "enter":
                cand = [c for c in ctxs if all(c is not s for s in m.stack)]
                if not cand or len(m.stack) >= 5:
                    continue
                ctx = rng.choice(cand)
                if id(ctx) in getattr(m, "exited", set()):
                    res.features.add("ctx-reused")
                ctx.__enter__()
                m.stack.append(ctx)
                if len(m.stack) >= 3:
                    res.features.add("nest-depth>=3")
            elif action == "exit":
                if not m.stack:
                    continue
                ctx = m.stack.pop()
                ctx.__exit__(None, None, None)
                m.__dict__.setdefault("exited", set()).add(id(ctx))
            elif action == "exc-exit":
                cand = [c for c in ctxs if all(c is not s for s in m.stack)]
                if not cand or len(m.stack) >= 5:
                    continue
                ctx = rng.choice(cand)
                exc_cls = rng.choice([ValueError, KeyError, Boom, RuntimeError])
                depth_before = len(m.stack)
                try:
                    with ctx:
                        m.stack.append(ctx)
                        check_state(res, m, name + " (inside)")
                        if rng.random() < 0.5:
                            a, b, _ = rng.choice(bases)
                            cc_ = PL.compile(a)
                            record(ctx, a, cc_)
                        raise exc_cls("boom")
                except (ValueError, KeyError, RuntimeError, Boom):
                    pass
                m.stack.pop()
                m.__dict__.setdefault("exited", set()).add(id(ctx))
                if depth_before + 1 >= 2:
                    res.features.add("exc-exit-depth>=2")
            elif action in ("compile", "recompile"):
                ctx = m.top() if rng.random() < 0.6 else rng.choice(ctxs)
                a, b, _ = rng.choice(bases)
                sc = rng.choice([a, b])
                if ctx is default_ctx:
                    continue  # keep the process-wide default context clean
                cc_ = ctx.compile(sc) if rng.random() < 0.5 or ctx is not m.top() else PL.compile(sc)
                record(ctx, sc, cc_)
                cc2 = ctx.compile(sc)
                if cc2 is not cc_:
                    res.violate("recompile-returned-different-object", f"{name}: second compile returned a different object")
            elif action in ("op", "module-op"):
                ctx = m.top() if action == "module-op" else rng.choice(ctxs)
                if ctx is default_ctx:
                    continue
                a, b, kinds = rng.choice(bases)
                had = ctx.is_compiled(a)
                ca, cb = ctx.compile(a), ctx.compile(b)
                record(ctx, a, ca)
                record(ctx, b, cb)
                if had:
                    res.features.add("op-on-earlier-compiled")
                opname = rng.choice(["integrate", "multiply", "conjugate", "concatenate", "differentiate", "differentiate"])
                exp_meta = None
                use_module = action == "module-op"
                if opname == "integrate":
                    if "poly" in kinds:
                        continue
                    z = Scope(pipes.random_subset(rng, sorted(a.scope)))
                    out = PL.integrate(ca, z) if use_module else ctx.integrate(ca, z)
                    exp_ops, exp_kind, exp_meta = (a,), "INTEGRATION", ("scope", z)
                elif opname == "multiply":
                    out = PL.multiply(ca, cb) if use_module else ctx.multiply(ca, cb)
                    exp_ops, exp_kind = (a, b), "MULTIPLICATION"
                elif opname == "conjugate":
                    out = PL.conjugate(ca) if use_module else ctx.conjugate(ca)
                    exp_ops, exp_kind = (a,), "CONJUGATION"
                elif opname == "concatenate":
                    out = PL.concatenate(ca, cb) if use_module else ctx.concatenate(ca, cb)
                    exp_ops, exp_kind = (a, b), "CONCATENATE"
                else:
                    if "poly" not in kinds:
                        continue
                    order = rng.choice([1, 2])
                    out = PL.differentiate(ca, order=order) if use_module else ctx.differentiate(ca, order=order)
                    exp_ops, exp_kind, exp_meta = (a,), "DIFFERENTIATION", ("order", order)
                # the result must be the compilation (in this context) of the symbolic operator result
                if not ctx.has_symbolic(out):
                    res.violate("operator-result-unregistered", f"{name}: result of {opname} is unknown to its context")
                else:
                    sres = ctx.get_symbolic_circuit(out)
                    if sres.operation is None or sres.operation.operator.name != exp_kind or tuple(sres.operation.operands) != exp_ops:
                        res.violate("operator-result-wrong-operation", f"{name}: symbolic result has operation {sres.operation and sres.operation.operator.name} / wrong operands")
                    elif exp_meta is not None and sres.operation.metadata.get(exp_meta[0]) != exp_meta[1]:
                        res.violate("operator-result-wrong-arguments", f"{name}: {opname} returned the compilation of a result with {exp_meta[0]}={sres.operation.metadata.get(exp_meta[0])}, asked for {exp_meta[1]}")
                    record(ctx, sres, out)
                res.features.add("op:" + opname)
            elif action == "compile-derived-fresh":
                # a derived circuit whose operands (one of them used at two depths) were never
                # compiled in a fresh context: operands must be compiled first, each exactly once
                ctx = new_ctx()
                a, b, kinds = rng.choice(bases)
                shape = rng.choice(["a*conj(a)", "a*(a*b)", "conj(a*b)", "cat(a, conj(a))"])
                if shape == "a*conj(a)":
                    sres = SF.multiply(a, SF.conjugate(a))
                elif shape == "a*(a*b)":
                    sres = SF.multiply(a, SF.multiply(a, b))
                elif shape == "conj(a*b)":
                    sres = SF.conjugate(SF.multiply(a, b))
                else:
                    sres = SF.concatenate([a, SF.conjugate(a)])
                o = call(ctx.compile, sres)
                if not o.ok:
                    # the symbolic operators accepted the pipeline (an operator refusal would have
                    # raised above): compiling it in a fresh context must work as it does when the
                    # operands are compiled one by one
                    res.violate("derived-compile-raised", f"{name}: compiling {shape} in a fresh context raised {o.exc_type}: {str(o.exc)[:200]} @ {o.where()}")
                    continue
                cc_ = o.value
                record(ctx, sres, cc_)
                for c_ in pipes_all(sres):
                    if not ctx.is_compiled(c_):
                        res.violate("operand-not-compiled", f"{name}: an operand of {shape} is not registered after compiling the derived circuit")
                    else:
                        record(ctx, c_, ctx.get_compiled_circuit(c_))
                res.features.add("compile-derived-fresh")
            elif action == "custom-rule":
                # a context owning its own rule for an operator must use it through every entry point,
                # whether or not the context is the active one
                import typing

                from cirkit.symbolic import operators as OPS
                from cirkit.symbolic.layers import CategoricalLayer, LayerOperator, PolynomialLayer, SumLayer

                ctx = new_ctx()
                a, b, kinds = rng.choice(bases)
                which = rng.choice(["conjugate", "integrate", "multiply", "differentiate"])
                if which == "differentiate" and "poly" not in kinds:
                    which = "conjugate"
                if which == "integrate" and "poly" in kinds:
                    which = "multiply"
                orig, lop, ltype = {
                    "conjugate": (OPS.conjugate_sum_layer, LayerOperator.CONJUGATION, SumLayer),
                    "integrate": (OPS.integrate_categorical_layer, LayerOperator.INTEGRATION, CategoricalLayer),
                    "multiply": (OPS.multiply_sum_layers, LayerOperator.MULTIPLICATION, SumLayer),
                    "differentiate": (OPS.differentiate_polynomial_layer, LayerOperator.DIFFERENTIATION, PolynomialLayer),
                }[which]
                calls = []

                def my_rule(*args, **kwargs):
                    calls.append(1)
                    return orig(*args, **kwargs)

                # real classes, not the strings `from __future__ import annotations` would leave
                my_rule.__annotations__ = dict(typing.get_type_hints(orig))
                ctx.add_operator_rule(lop, my_rule)
                ca = ctx.compile(a)
                record(ctx, a, ca)
                inactive = all(ctx is not s_ for s_ in m.stack)
                use_module = rng.random() < 0.5
                if which == "conjugate":
                    out = PL.conjugate(ca, ctx=ctx) if use_module else ctx.conjugate(ca)
                elif which == "integrate":
                    out = PL.integrate(ca, ctx=ctx) if use_module else ctx.integrate(ca)
                elif which == "multiply":
                    cb = ctx.compile(b)
                    record(ctx, b, cb)
                    out = PL.multiply(ca, cb, ctx=ctx) if use_module else ctx.multiply(ca, cb)
                else:
                    out = PL.differentiate(ca, ctx=ctx) if use_module else ctx.differentiate(ca)
                record(ctx, ctx.get_symbolic_circuit(out), out)
                n_typ = sum(1 for l_ in a.layers if type(l_) is ltype)  # rules are looked up by exact type
                if n_typ:
                    res.features.add("custom-rule" + ("-inactive" if inactive else ""))
                    res.features.add("custom-rule:" + which)
                if n_typ and (len(calls) != n_typ if which == "conjugate" else not calls):
                    res.violate("context-rule-ignored", f"{name}: {which} through a context that owns a rule for {ltype.__name__} used it {len(calls)} times for {n_typ} such layers (context active: {not inactive}, via {'module function' if use_module else 'method'})")
                if OPERATOR_REGISTRY.get() is not m.top_reg():
                    res.violate("active-registry-wrong", f"{name}: registry changed by an operator call")
            elif action == "lookup-foreign":
                res.features.add("foreign-lookup")
                ctx = rng.choice(ctxs)
                other = [c for c in ctxs if c is not ctx and len(m.maps[id(c)]) > 1]
                a, b, _ = rng.choice(bases)
                fresh, _ = gen.gen_circuit(rng, gen.GenCfg(nvars=2, kinds=("cat",)))
                if ctx.is_compiled(fresh):
                    res.violate("foreign-reported-compiled", f"{name}: is_compiled True for a circuit never compiled")
                o = call(ctx.get_compiled_circuit, fresh)
                if o.ok:
                    res.violate("foreign-lookup-returned", f"{name}: get_compiled_circuit returned for a foreign circuit")
                if other:
                    k = [kk for kk in m.maps[id(other[0])] if kk != "__ctx__"][0]
                    foreign_cc = m.maps[id(other[0])][k]
                    if ctx.has_symbolic(foreign_cc):
                        res.violate("foreign-reported-compiled", f"{name}: has_symbolic True for a circuit compiled in another context")
                    o = call(ctx.integrate, foreign_cc)
                    if o.ok or not isinstance(o.exc, (ValueError, KeyError)):
                        res.violate("foreign-operator-accepted", f"{name}: operator on a circuit of another context -> {o.exc_type or 'returned'}")
        except MonitorViolation as e:
            res.violate(e.vclass, f"{name}: {e.detail}")
        except Exception as e:  # an operator may legitimately refuse (no rule for a layer): keep going
            res.count("refusals")
            sig.append(type(e).__name__)
        check_state(res, m, name)
        if res.violations:
            break
    # unwind
    while m.stack:
        m.stack.pop().__exit__(None, None, None)
    check_state(res, m, f"{tag} unwind")
    # compile-event log: once per (context, circuit), operands before consumers
    ev = _tl.events
    res.count("compile_events", len(ev))
    seen = set()
    for comp_id, sc_id in ev:
        if (comp_id, sc_id) in seen:
            res.violate("compiled-twice", f"{tag}: a symbolic circuit was compiled twice in one context")
        seen.add((comp_id, sc_id))
        sc = m.scs.get(sc_id)
        if sc is not None and sc.operation is not None:
            for op in sc.operation.operands:
                if (comp_id, id(op)) not in seen:
                    res.violate("operand-compiled-after-consumer", f"{tag}: an operand was not compiled before the circuit derived from it")
    _tl.events = None
    return short_hash(sig), len(ctxs)


def run_case(case) -> Result:
    res = Result()
    rng = case_rng(ID, case["seed"], (case["kind"], case["k"]))
    if case["kind"] == "seq":
        sig, nctx = run_history(res, rng, rng.randint(20, 120), f"history {case['k']}")
        res.sig = sig
        res.nontrivial = nctx >= 2
        return res
    seeds = [rng.getrandbits(32) for _ in range(4)]
    subs = [Result() for _ in seeds]
    if case["kind"] == "threads":
        res.features.add("threads")

        def work(i):
            import random

            run_history(subs[i], random.Random(seeds[i]), 40, f"thread {i}")

        ths = [threading.Thread(target=work, args=(i,)) for i in range(4)]
        for t in ths:
            t.start()
        for t in ths:
            t.join()
    else:
        res.features.add("asyncio")

        async def work(i):
            import random

            await asyncio.sleep(0)
            run_history(subs[i], random.Random(seeds[i]), 40, f"task {i}")
            await asyncio.sleep(0)

        async def main():
            await asyncio.gather(*[asyncio.create_task(work(i)) for i in range(4)])

        asyncio.run(main())
    for s in subs:
        res.violations += s.violations
        res.features |= s.features
        for k, v in s.obs.items():
            res.count(k, v)
    if res.violations:
        res.status = "violation"
    res.sig = f"{case['kind']}-{case['k']}"
    return res
