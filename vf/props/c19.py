"""C19 -- saved parameters reproduce the circuit after reload.

Monitor: bit-exact output equality between a compiled circuit and a freshly compiled, freshly
(differently) initialised instance of the same symbolic circuit under the same flags after
load_state_dict(state_dict()); key-set equality (strict load); ownership: every learnable tensor the
compiler map assigns to the circuit's own symbolic parameters appears in the dictionary exactly once.
Histories {save, reset, load, step, save, load into a third instance}.
"""
from __future__ import annotations

import io

import numpy as np
import torch

from vf import cc as C, gen, pipes, structs, tie
from vf.common import Result, call, case_rng, exc_violation, np_rng, short_hash
from vf.props import c01

ID = "C19"
RULE = (
    "random circuits (vf.gen presets incl. constants, evidence layers, multi-output) and operator pipelines "
    "(vf.pipes, every circuit of the pipeline saved and reloaded in operand order; and only the base "
    "circuits reloaded, derived circuits re-checked); 4 flags x 3 semirings; dict passing and torch.save / "
    "torch.load through a buffer; histories save -> reset -> load -> SGD step -> save -> load into a third "
    "instance; distinct = structure signature x flags; non-trivial = at least one learnable tensor"
    " Also: fresh instance evaluated before the load, only operands loaded and derived circuits compiled afterwards with a second instance compiled in between, derived circuit reloaded from its own dictionary alone;"
)
EXHAUSTIVE_SUBSPACES = ["all 4 (fold, optimize) combinations per case"]
ASSUMPTIONS = ["for derived circuits the shared tensors belong to the operands: 'exactly once' is asserted on the owning circuit, presence + round trip on the derived one"]
FLOOR = {"pipeline": 1, "ccp:pointer-fold-idx": 1, "cc:fold>1:TorchEvidenceLayer": 1, "in:constant-lin": 1, "torch.save": 1, "third-instance": 1,
         "outputs_compared_bitexact": 100, "derived-after-base-reload": 1, "derived-compiled-after-load": 1, "derived-own-dict-reload": 1, "warm-fresh-differs-before-load": 1}


def plan(tier, seed):
    n = 14 if tier == "quick" else 560
    cases = []
    for name in ["mixed", "mono", "kron3", "mixing", "poly", "complex", "const", "multi", "interior", "sparse", "structured", "samekind-fold"]:
        for k in range(n):
            cases.append({"kind": "gen", "preset": name, "k": 2000 + k, "semiring": None, "seed": seed})
    for kind in pipes.PIPE_KINDS:
        for k in range(n):
            cases.append({"kind": "pipe", "pipe": kind, "k": k, "seed": seed})
    return cases


def roundtrip(sd, via_file: bool):
    if not via_file:
        return sd
    buf = io.BytesIO()
    torch.save(sd, buf)
    buf.seek(0)
    return torch.load(buf)


def bit_equal(a, b):
    return a.shape == b.shape and a.dtype == b.dtype and np.array_equal(a, b, equal_nan=True)


def run_case(case) -> Result:
    res = Result()
    if case["kind"] == "gen":
        rng, cfg, root, meta = c01.build(case)
        domains = meta["domains"]
        srs = [s for s in next(p for p in c01.PRESETS if p[0] == case["preset"])[2]]
        sr = rng.choice(srs)
    else:
        rng = case_rng(ID, case["seed"], ("pipe", case["pipe"], case["k"]))
        built = C.build_or_refuse(res, lambda: pipes.gen_pipeline(rng, case["pipe"]))
        if built is None:
            return res
        root, info = built
        domains = info["domains"]
        cx = any(n.dtype.name == "COMPLEX" for c in tie.pipeline_circuits(root) for n in tie.circuit_leaves(c)[0])
        sr = "complex-lse-sum" if cx or rng.random() < 0.3 else "sum-product"
        res.features.add("pipeline")
    nrng = np_rng(rng)
    circuits = tie.pipeline_circuits(root)
    for c in circuits:
        res.features |= structs.circuit_features(c)
    res.sig = short_hash([c01.struct_sig(c) for c in circuits]) + ":" + sr
    pools = {}
    for c in circuits:
        cdom = pipes.remaining_domains(c, domains)
        if structs.circuit_scope(c):
            pool = gen.random_inputs(nrng, cdom, 5)
            if pool.shape[1] < max(domains) + 1:
                pool = np.concatenate([pool, np.full((pool.shape[0], max(domains) + 1 - pool.shape[1]), 1, dtype=pool.dtype)], axis=1)
            pools[id(c)] = pool
        else:
            pools[id(c)] = None
    for fold, opt in C.FLAGS:
        tag = C.flag_name(fold, opt)
        A = C.new_compiler(sr, fold, opt)
        if C.compile_in(res, A, root, f"A [{tag}]") is None:
            continue
        tie.revalue(A, root, np.random.default_rng(rng.getrandbits(32)), "normal")
        for c in circuits:
            res.features |= structs.compiled_features(A.get_compiled_circuit(c))
        outs_A = {}
        for c in circuits:
            o = call(C.evaluate, A.get_compiled_circuit(c), pools[id(c)])
            if not o.ok:
                outs_A = None
                break
            outs_A[id(c)] = o.value
        if outs_A is None:
            res.note = "evaluation of the saving circuit failed (reported by C01/C02)"
            continue
        via_file = rng.random() < 0.5
        if via_file:
            res.features.add("torch.save")
        sds = {id(c): roundtrip(A.get_compiled_circuit(c).state_dict(), via_file) for c in circuits}
        # ownership on the owning circuit: each own learnable symbolic tensor exactly once
        for c in circuits:
            ccA = A.get_compiled_circuit(c)
            owned, _ = tie.circuit_leaves(c)
            sd_ptrs = {}
            for k, v in ccA.state_dict(keep_vars=True).items():
                if k.endswith("_ptensor"):
                    sd_ptrs.setdefault(v.data_ptr(), []).append(k)
            seen_t = set()
            for n in owned:
                t, i = A.state.retrieve_compiled_parameter(n)
                if not n.learnable or id(t) in seen_t:
                    continue
                seen_t.add(id(t))
                keys = sd_ptrs.get(t._ptensor.data_ptr(), [])
                res.count("ownership_checked")
                if len(keys) == 0:
                    res.violate("learnable-tensor-missing-from-state-dict", f"[{tag}] a learnable tensor of shape {tuple(t._ptensor.shape)} is not in the state dict of its circuit")
                elif len(keys) > 1 and c.operation is None:
                    res.violate("learnable-tensor-saved-twice", f"[{tag}] a learnable tensor appears under {len(keys)} keys: {keys[:3]}")
        # fresh instance B, load everything in operand order
        B = C.new_compiler(sr, fold, opt)
        if C.compile_in(res, B, root, f"B [{tag}]") is None:
            continue
        warm = rng.random() < 0.7
        for c in circuits:
            ccB = B.get_compiled_circuit(c)
            ccB.reset_parameters()
            if warm:  # "whatever its fresh initial values": the fresh instance may well have been used before the load
                o = call(C.evaluate, ccB, pools[id(c)])
                if o.ok and c.operation is None and o.value.shape == outs_A[id(c)].shape and not bit_equal(o.value, outs_A[id(c)]):
                    res.features.add("warm-fresh-differs-before-load")
        for c in circuits:
            ccB = B.get_compiled_circuit(c)
            o = call(ccB.load_state_dict, sds[id(c)], strict=True)
            if not o.ok:
                res.violate("load-state-dict-failed", f"[{tag}] circuit#{circuits.index(c)}: {o.exc_type}: {str(o.exc)[:300]}")
                break
        else:
            for c in circuits:
                o = call(C.evaluate, B.get_compiled_circuit(c), pools[id(c)])
                if not o.ok:
                    exc_violation(res, o, f"evaluating the reloaded circuit#{circuits.index(c)} [{tag}]")
                    continue
                res.count("outputs_compared_bitexact", int(np.prod(o.value.shape)))
                if not bit_equal(o.value, outs_A[id(c)]):
                    d = np.nanmax(np.abs(o.value - outs_A[id(c)])) if o.value.shape == outs_A[id(c)].shape else "shape"
                    res.violate("outputs-differ-after-reload", f"[{tag}] circuit#{circuits.index(c)} ({'derived' if c.operation else 'base'}): max |diff| = {d}")
        # only the base circuits reloaded into a third instance, derived circuits re-checked
        if len(circuits) > 1:
            T = C.new_compiler(sr, fold, opt)
            if C.compile_in(res, T, root, f"T [{tag}]") is not None:
                res.features.add("third-instance")
                okload = True
                for c in circuits:
                    if c.operation is None:
                        o = call(T.get_compiled_circuit(c).load_state_dict, sds[id(c)], strict=True)
                        okload &= o.ok
                if okload:
                    res.features.add("derived-after-base-reload")
                    for c in circuits:
                        if c.operation is None:
                            continue
                        o = call(C.evaluate, T.get_compiled_circuit(c), pools[id(c)])
                        if o.ok:
                            res.count("outputs_compared_bitexact", int(np.prod(o.value.shape)))
                            # constants of derived circuits are re-created identically by compilation
                            if not bit_equal(o.value, outs_A[id(c)]):
                                res.violate("derived-differs-after-base-reload", f"[{tag}] derived circuit#{circuits.index(c)} differs after reloading only its operands")
            # the derived circuit's own dictionary alone, loaded into a fresh instance of the derived
            # circuit, must carry every tensor the derived circuit reads
            Dc = C.new_compiler(sr, fold, opt)
            if C.compile_in(res, Dc, root, f"D [{tag}]") is not None:
                ccD = Dc.get_compiled_circuit(root)
                o = call(ccD.load_state_dict, sds[id(root)], strict=True)
                if not o.ok:
                    res.violate("load-state-dict-failed", f"[{tag}] derived circuit's own dictionary: {o.exc_type}: {str(o.exc)[:300]}")
                else:
                    o = call(C.evaluate, ccD, pools[id(root)])
                    if o.ok:
                        res.features.add("derived-own-dict-reload")
                        res.count("outputs_compared_bitexact", int(np.prod(o.value.shape)))
                        if not bit_equal(o.value, outs_A[id(root)]):
                            res.violate("derived-differs-after-own-dict-reload", f"[{tag}] the derived circuit reloaded from its own state dictionary differs from the saved one (its dictionary does not carry the tensors it reads)")
            # lazily: only the operands exist when the dictionaries are loaded (another instance of the same
            # symbolic circuits is compiled elsewhere in between); derived circuits are compiled afterwards
            L, M = C.new_compiler(sr, fold, opt), C.new_compiler(sr, fold, opt)
            bases = [c for c in circuits if c.operation is None]
            okl = True
            for c in bases:
                okl &= C.compile_in(res, L, c, f"L [{tag}]") is not None
            for c in bases:
                okl &= C.compile_in(res, M, c, f"M [{tag}]") is not None
            if okl:
                for c in bases:
                    okl &= call(L.get_compiled_circuit(c).load_state_dict, sds[id(c)], strict=True).ok
            if okl and C.compile_in(res, L, root, f"L derived [{tag}]") is not None:
                res.features.add("derived-compiled-after-load")
                for c in circuits:
                    o = call(C.evaluate, L.get_compiled_circuit(c), pools[id(c)])
                    if not o.ok:
                        continue
                    res.count("outputs_compared_bitexact", int(np.prod(o.value.shape)))
                    if not bit_equal(o.value, outs_A[id(c)]):
                        kind_ = "derived circuit compiled after the load" if c.operation else "reloaded operand, after derived circuits were compiled in its context"
                        res.violate("differs-after-compiling-derived", f"[{tag}] circuit#{circuits.index(c)} ({kind_}) differs from the saved circuit")
                for c in bases:
                    now = L.get_compiled_circuit(c).state_dict()
                    for k_, v_ in sds[id(c)].items():
                        if k_ not in now or not torch.equal(now[k_], v_):
                            res.violate("state-dict-changed-by-derived-compile", f"[{tag}] entry {k_} of a reloaded operand changed when a derived circuit was compiled")
                            break
        else:
            # history on a single circuit: step, save, load into a third instance
            ccA = A.get_compiled_circuit(root)
            params = [p for p in ccA.parameters() if p.requires_grad]
            if params and pools[id(root)] is not None:
                with torch.no_grad():
                    for p in params:
                        p.add_(torch.randn_like(p) * 0.1 if not p.is_complex() else torch.randn_like(p) * 0.1)
                o = call(C.evaluate, ccA, pools[id(root)])
                if o.ok:
                    T = C.new_compiler(sr, fold, opt)
                    ccT = C.compile_in(res, T, root, f"T [{tag}]")
                    if ccT is not None:
                        res.features.add("third-instance")
                        lo = call(ccT.load_state_dict, roundtrip(ccA.state_dict(), via_file), strict=True)
                        if not lo.ok:
                            res.violate("load-state-dict-failed", f"[{tag}] third instance: {lo.exc_type}: {str(lo.exc)[:200]}")
                        else:
                            o2 = call(C.evaluate, ccT, pools[id(root)])
                            if o2.ok:
                                res.count("outputs_compared_bitexact", int(np.prod(o2.value.shape)))
                                if not bit_equal(o2.value, o.value):
                                    res.violate("outputs-differ-after-reload", f"[{tag}] third instance after an update step")
    return res
