"""C20 -- model templates compute the formulas they document.

Monitor: compiled template circuits against (a) numpy einsum on the factor tensors read through the
compiler map (CP, Tucker, tensor-train; every index tuple), (b) an independent forward algorithm /
product of marginals with variable v using the arguments given for id v (HMM, fully factorised),
(c) an independent recursive evaluation of the formula on every complete assignment and its model
count (logic circuits, built from node graphs and loaded from .sdd text).
"""
from __future__ import annotations

import itertools
import os
import tempfile

import numpy as np

import cirkit.symbolic.functional as SF
from cirkit.symbolic import layers as L
from cirkit.templates import pgms, tensor_factorizations as TF
from cirkit.templates.logic import graph as LG
from cirkit.templates.logic.sdd import SDD
from cirkit.templates.utils import Parameterization

from vf import cc as C, gen, ref, structs, tie
from vf.common import Result, call, case_rng, close_lin, compare_semiring, exc_violation, np_rng, short_hash, to_linear

ID = "C20"
RULE = (
    "cp / tucker / tensor_train over shapes with 2-4 modes of size 2-4 and ranks 1-4 (embedding / "
    "categorical / binomial inputs, weighted and unweighted CP, softmax variants, complex tensor-train), "
    "every index tuple; hmm over EVERY ordering for n <= 4 and random ones up to 7 with per-variable kwargs "
    "lists (a different number of categories per variable) and 1-4 latent states; fully_factorized with "
    "per-variable kwargs; logic circuits from random Shannon-expansion (deterministic, decomposable) "
    "formulas with missing variables (smoothing) and top/bottom leaves (pruning), as node graphs and as "
    ".sdd text; 4 flags; 3 semirings where defined; distinct = template + arguments"
)
EXHAUSTIVE_SUBSPACES = ["every index tuple of every factorised tensor", "every ordering of hmm for n <= 4", "every complete assignment of every formula (n <= 6)"]
ASSUMPTIONS = ["tensor_train with a single mode is outside the documented formula (>= 2 modes generated)", "cp / tucker refuse one-mode shapes and modes of size 1 with the documented ValueError (recorded as refusals)"]
FLOOR = {"tmpl:cp": 1, "tmpl:tucker": 1, "tmpl:tensor_train": 1, "tt:modes>=3": 1, "tmpl:hmm": 1, "hmm:non-identity-ordering&hetero-kwargs": 1,
         "tmpl:fully_factorized": 1, "tmpl:logic": 1, "logic:smoothed": 1, "logic:pruned": 1, "logic:sdd-file": 1, "entries_compared": 500}


def plan(tier, seed):
    q = tier == "quick"
    cases = []
    for k in range(28 if q else 1800):
        for t in ("cp", "tucker", "tensor_train", "ff"):
            cases.append({"kind": t, "k": k, "seed": seed})
    for n in range(1, 5):
        for o in itertools.permutations(range(n)):
            if q and n == 4 and sum(o) % 3 != 0 and o[0] != 3:
                continue
            cases.append({"kind": "hmm", "order": list(o), "k": 0, "seed": seed})
    for k in range(16 if q else 1440):
        cases.append({"kind": "hmm", "order": None, "k": k, "seed": seed})
    for k in range(80 if q else 7200):
        cases.append({"kind": "logic", "k": k, "seed": seed})
    return cases


def layers_over(sc, v, cls):
    return [sl for sl in sc.layers if isinstance(sl, cls) and tuple(sl.scope) == (v,)]


def input_table(sl, leaf):
    """(K, N) table of an input layer's values over its discrete domain."""
    dom = sl.num_states if isinstance(sl, L.EmbeddingLayer) else sl.num_categories if isinstance(sl, L.CategoricalLayer) else sl.total_count + 1
    (v,) = tuple(sl.scope)
    X = np.zeros((dom, v + 1), dtype=np.int64)
    X[:, v] = np.arange(dom)
    return ref.eval_input_layer(sl, leaf, X, dom).T  # (K, N)


def run_tf(res: Result, rng, kind, case):
    nm = rng.randint(2, 4)
    shape = tuple(rng.randint(2, 4) for _ in range(nm))
    rank = rng.randint(1, 4 if kind != "tucker" else 3)
    sm = Parameterization(activation="softmax", initialization="normal")
    inp = rng.choice(["embedding", "embedding", "categorical", "binomial"]) if kind != "tensor_train" else "embedding"
    cx = False
    if kind == "cp":
        wp = rng.choice([None, Parameterization(), sm])
        o = call(TF.cp, shape, rank, input_layer=inp, weight_param=wp)
    elif kind == "tucker":
        if nm == 4:
            shape, nm = shape[:3], 3
        o = call(TF.tucker, shape, rank, input_layer=inp, core_param=rng.choice([None, sm]))
    else:
        cx = rng.random() < 0.3
        if nm >= 3:
            res.features.add("tt:modes>=3")
        o = call(TF.tensor_train, shape, rank, factor_param=Parameterization(dtype="complex") if cx else None)
    res.features.add("tmpl:" + kind)
    res.sig = short_hash([kind, shape, rank, inp, cx])
    if not o.ok:
        exc_violation(res, o, f"{kind}({shape}, {rank}, input_layer={inp})")
        return
    sc = o.value
    if sorted(sc.scope) != list(range(nm)):
        res.violate("template-wrong-scope", f"{kind}{shape}: scope {sorted(sc.scope)}")
        return
    if inp == "binomial":
        # binomial with total_count = dim has dim + 1 states; the tensor has the documented shape on 0..dim-1
        pass
    idx = np.array(list(itertools.product(*[range(d) for d in shape])), dtype=np.int64)
    sr = "complex-lse-sum" if cx else rng.choice(["sum-product", "sum-product", "complex-lse-sum"])
    for fold, opt in (C.FLAGS if case["k"] % 2 == 0 else [C.FLAGS[3], C.FLAGS[rng.randrange(3)]]):
        tag = f"{kind}{shape} rank={rank} {inp} {C.flag_name(fold, opt)}"
        comp = C.new_compiler(sr, fold, opt)
        cc_ = C.compile_in(res, comp, sc, tag)
        if cc_ is None:
            continue
        leaf = tie.leaf_reader(comp)
        # factor matrices A_j[x, r] from the input layers, by variable id
        if kind in ("cp", "tucker"):
            A = []
            for j in range(nm):
                (sl,) = layers_over(sc, j, L.InputLayer)
                A.append(input_table(sl, leaf)[:, : shape[j]].T)  # (I_j, R)
            (sum_sl,) = list(sc.sum_layers)
            W = ref.eval_param(sum_sl.weight, leaf)  # (1, R) or (1, R**n)
            letters = "abcd"[:nm]
            if kind == "cp":
                T = np.einsum(",".join(f"{letters[j]}r" for j in range(nm)) + ",r->" + letters, *A, W[0])
            else:
                core = W[0].reshape((rank,) * nm)
                rl = "wxyz"[:nm]
                T = np.einsum(",".join(f"{letters[j]}{rl[j]}" for j in range(nm)) + "," + rl + "->" + letters, *A, core)
        else:
            V1 = input_table(layers_over(sc, 0, L.EmbeddingLayer)[0], leaf)  # (R, I_1)
            Vn = input_table(layers_over(sc, nm - 1, L.EmbeddingLayer)[0], leaf)
            cur = V1.T  # (I_1, R) -> axes (x_1, r_1)
            T = cur
            for i in range(1, nm - 1):
                embs = layers_over(sc, i, L.EmbeddingLayer)
                if len(embs) != rank:
                    res.violate("template-structure", f"{tag}: {len(embs)} embeddings over variable {i}, expected rank={rank}")
                    return
                # V_i[x, r_prev, r_next] = embs[r_next].weight[r_prev, x]; the k-th embedding is located
                # through the circuit: it feeds the k-th product of the sum over variable i
                Vi = np.stack([input_table(e, leaf) for e in order_by_sum_inputs(sc, embs)], axis=-1)  # (R_prev, I_i, R_next)
                T = np.tensordot(T, Vi, axes=([T.ndim - 1], [0]))  # (..., I_i, R_next)
            T = np.tensordot(T, Vn, axes=([T.ndim - 1], [0]))  # (..., I_n)
        r, a = C.reference(sc, comp, idx)
        want = T.reshape(-1)[:, None, None]
        ok, _, msg = close_lin(r, want, a, "exact")
        if not ok:
            res.violate("template-formula-mismatch", f"{tag}: the symbolic circuit (reference evaluation) is not the documented contraction of its factors: {msg}")
            return
        C.check_expected(res, cc_, idx, want, a, sr, tag, vclass="template-formula-mismatch")
        res.count("entries_compared", int(idx.shape[0]))


def order_by_sum_inputs(sc, embs):
    """Order the `rank` embeddings of an inner tensor-train mode by the position of the product
    they feed in the inputs of the sum layer above (that position is the next bond index)."""
    pos = {}
    for e in embs:
        (prod,) = sc.layer_outputs(e)
        (s,) = sc.layer_outputs(prod)
        pos[e] = list(sc.layer_inputs(s)).index(prod)
    return sorted(embs, key=lambda e: pos[e])


def run_hmm(res: Result, rng, case):
    if case.get("order") is not None:
        order = list(case["order"])
    else:
        n = rng.randint(2, 7)
        order = list(range(n))
        rng.shuffle(order)
    n = len(order)
    K = rng.randint(1, 4)
    inp = rng.choice(["categorical", "categorical", "binomial"])
    hetero = rng.random() < 0.8
    ncat = [(2 + (v % 3)) if hetero else 3 for v in range(n)]
    kwargs = [({"num_categories": ncat[v]} if inp == "categorical" else {"total_count": ncat[v] - 1}) for v in range(n)]
    res.features.add("tmpl:hmm")
    if order != sorted(order) and hetero and len(set(ncat)) > 1:
        res.features.add("hmm:non-identity-ordering&hetero-kwargs")
    res.sig = short_hash(["hmm", order, K, inp, hetero])
    o = call(pgms.hmm, order, input_layer=inp, num_latent_states=K, input_layer_kwargs=kwargs if hetero else kwargs[0])
    tag = f"hmm(order={order}, K={K}, {inp}, categories-by-id={ncat})"
    if not o.ok:
        exc_violation(res, o, tag)
        return
    sc = o.value
    # per-variable argument monitor (structural)
    for v in range(n):
        ls = layers_over(sc, v, L.InputLayer)
        if len(ls) != 1:
            res.violate("template-structure", f"{tag}: {len(ls)} input layers over variable {v}")
            return
        got = ls[0].num_categories if inp == "categorical" else ls[0].total_count + 1
        if got != ncat[v]:
            res.violate("per-variable-arguments", f"{tag}: variable {v} was built with {got} states, the arguments given for id {v} say {ncat[v]}")
            return
    domains = {v: ("disc", ncat[v]) for v in range(n)}
    X = gen.all_assignments(domains, limit=2000)
    if X is None:
        X = gen.random_inputs(np_rng(rng), domains, 40)
    sr = rng.choice(["lse-sum", "sum-product"])
    for fold, opt in [C.FLAGS[rng.randrange(4)], C.FLAGS[3]]:
        comp = C.new_compiler(sr, fold, opt)
        cc_ = C.compile_in(res, comp, sc, tag)
        if cc_ is None:
            continue
        leaf = tie.leaf_reader(comp)
        # independent forward algorithm along the ordering: the chain is built from the last
        # variable of the ordering backwards; transition matrices are the sum layers in circuit order
        sums = [sl for sl in sc.topological_ordering() if isinstance(sl, L.SumLayer)]
        Ws = [ref.eval_param(s.weight, leaf) for s in sums]  # first: after the last variable
        E = {v: input_table(layers_over(sc, v, L.InputLayer)[0], leaf) for v in range(n)}  # (K, N_v)
        want = np.zeros(X.shape[0])
        for b in range(X.shape[0]):
            msg = E[order[-1]][:, X[b, order[-1]]]
            msg = Ws[0] @ msg
            for t, i in enumerate(reversed(range(n - 1))):
                msg = Ws[t + 1] @ (msg * E[order[i]][:, X[b, order[i]]])
            want[b] = msg[0]
        if abs(want.sum() - 1.0) > 1e-9 and X.shape[0] == int(np.prod(ncat)):
            res.violate("template-formula-mismatch", f"{tag}: forward-algorithm probabilities sum to {want.sum()}")
        C.check_expected(res, cc_, X, want[:, None, None], np.abs(want)[:, None, None], sr, f"{tag} {C.flag_name(fold, opt)}", vclass="template-formula-mismatch")
        res.count("entries_compared", X.shape[0])


def run_ff(res: Result, rng, case):
    n = rng.randint(1, 5)
    inp = rng.choice(["categorical", "binomial", "gaussian"])
    ncat = [2 + (v % 3) for v in range(n)]
    kwargs = None if inp == "gaussian" else [({"num_categories": ncat[v]} if inp == "categorical" else {"total_count": ncat[v] - 1}) for v in range(n)]
    res.features.add("tmpl:fully_factorized")
    res.sig = short_hash(["ff", n, inp])
    o = call(pgms.fully_factorized, n, input_layer=inp, input_layer_kwargs=kwargs)
    tag = f"fully_factorized({n}, {inp})"
    if not o.ok:
        exc_violation(res, o, tag)
        return
    sc = o.value
    if inp != "gaussian":
        for v in range(n):
            (sl,) = layers_over(sc, v, L.InputLayer)
            got = sl.num_categories if inp == "categorical" else sl.total_count + 1
            if got != ncat[v]:
                res.violate("per-variable-arguments", f"{tag}: variable {v} built with {got} states, given {ncat[v]}")
                return
    domains = {v: (("disc", ncat[v]) if inp != "gaussian" else ("cont", 0)) for v in range(n)}
    X = gen.all_assignments(domains, limit=600)
    if X is None:
        X = gen.random_inputs(np_rng(rng), domains, 20)
    sr = rng.choice(["lse-sum", "sum-product"])
    comp = C.new_compiler(sr, *C.FLAGS[rng.randrange(4)])
    cc_ = C.compile_in(res, comp, sc, tag)
    if cc_ is None:
        return
    leaf = tie.leaf_reader(comp)
    want = np.ones(X.shape[0])
    for v in range(n):
        (sl,) = layers_over(sc, v, L.InputLayer)
        want = want * ref.eval_input_layer(sl, leaf, X, X.shape[0])[:, 0]
    C.check_expected(res, cc_, X, want[:, None, None], np.abs(want)[:, None, None], sr, tag, vclass="template-formula-mismatch")
    res.count("entries_compared", X.shape[0])


# ---------------------------------------------------------------------------------------------
# logic
# ---------------------------------------------------------------------------------------------
def gen_formula(rng, vars_, depth=0):
    """Shannon expansion: ('ite', v, f1, f0) | True | False | ('lit', v, positive)."""
    if not vars_ or rng.random() < 0.15 + 0.1 * depth:
        return rng.choice([True, False, True]) if (not vars_ or rng.random() < 0.5) else ("lit", rng.choice(vars_), rng.random() < 0.5)
    i = rng.randrange(len(vars_))
    v = vars_[i]
    rest = vars_[i + 1 :] if rng.random() < 0.7 else [w for w in vars_ if w != v]
    # sub-formulas may skip variables (needs smoothing)
    def sub():
        r = [w for w in rest if rng.random() < 0.8]
        return gen_formula(rng, r, depth + 1)
    return ("ite", v, sub(), sub())


def eval_formula(f, x):
    if f is True or f is False:
        return f
    if f[0] == "lit":
        return bool(x[f[1]]) == f[2]
    return eval_formula(f[2], x) if x[f[1]] else eval_formula(f[3], x)


def formula_vars(f, acc=None):
    acc = set() if acc is None else acc
    if f is True or f is False:
        return acc
    acc.add(f[1])
    if f[0] == "ite":
        formula_vars(f[2], acc)
        formula_vars(f[3], acc)
    return acc


def to_graph(f):
    """LogicalCircuit from a formula (literal nodes shared)."""
    lits, in_nodes, nodes = {}, {}, []

    def lit(v, pos):
        if (v, pos) not in lits:
            lits[(v, pos)] = LG.LiteralNode(v) if pos else LG.NegatedLiteralNode(v)
        return lits[(v, pos)]

    def rec(g):
        if g is True:
            return LG.TopNode()
        if g is False:
            return LG.BottomNode()
        if g[0] == "lit":
            return lit(g[1], g[2])
        d = LG.DisjunctionNode()
        c1, c0 = LG.ConjunctionNode(), LG.ConjunctionNode()
        in_nodes[c1] = [lit(g[1], True), rec(g[2])]
        in_nodes[c0] = [lit(g[1], False), rec(g[3])]
        in_nodes[d] = [c1, c0]
        return d

    root = rec(f)
    allnodes = list(set(itertools.chain(*in_nodes.values())).union(in_nodes.keys())) or [root]
    return LG.LogicalCircuit(allnodes, in_nodes, [root])


def to_sdd_text(f):
    """SDD text (root has id 0 and is written last, children before parents)."""
    lines, ids = [], {}
    counter = [1]

    def new_id(is_root):
        if is_root:
            return 0
        counter[0] += 1
        return counter[0] - 1

    def rec(g, is_root=False):
        if g is True:
            i = new_id(is_root)
            lines.append(f"T {i}")
            return i
        if g is False:
            i = new_id(is_root)
            lines.append(f"F {i}")
            return i
        if g[0] == "lit":
            i = new_id(is_root)
            lines.append(f"L {i} 0 {(g[1] + 1) if g[2] else -(g[1] + 1)}")
            return i
        p1 = rec(("lit", g[1], True))
        s1 = rec(g[2])
        p0 = rec(("lit", g[1], False))
        s0 = rec(g[3])
        i = new_id(is_root)
        lines.append(f"D {i} 0 2 {p1} {s1} {p0} {s0}")
        return i

    rec(f, True)
    return f"c generated\nsdd {len(lines)}\n" + "\n".join(lines) + "\n"


def has_const(f):
    if f is True or f is False:
        return True
    return f[0] == "ite" and (has_const(f[2]) or has_const(f[3]))


def run_logic(res: Result, rng, case):
    n = rng.randint(1, 6)
    f = gen_formula(rng, list(range(n)))
    if f is True or f is False or f[0] == "lit":
        f = ("ite", 0, f if f is not True and f is not False and f[1] != 0 else True, ("lit", n - 1, True) if n > 1 else False)
    fv = sorted(formula_vars(f))
    res.features.add("tmpl:logic")
    if has_const(f):
        res.features.add("logic:pruned")
    res.sig = short_hash(["logic", str(f)])
    via_sdd = case["k"] % 3 == 0
    tag = f"logic formula {str(f)[:120]}" + (" [sdd file]" if via_sdd else "")
    if via_sdd:
        res.features.add("logic:sdd-file")
        d = os.path.join(os.path.dirname(os.path.dirname(os.path.dirname(os.path.abspath(__file__)))), "replays", ".work")
        os.makedirs(d, exist_ok=True)
        fd, path = tempfile.mkstemp(suffix=".sdd", dir=d)
        os.write(fd, to_sdd_text(f).encode())
        os.close(fd)
        try:
            o = call(lambda: SDD.load(path).build_circuit())
        finally:
            os.remove(path)
    else:
        o = call(lambda: to_graph(f).build_circuit())
    nv = max(fv) + 1
    assignments = np.array(list(itertools.product([0, 1], repeat=nv)), dtype=np.int64)
    truth = np.array([eval_formula(f, x) for x in assignments], dtype=np.float64)
    if not o.ok:
        # a formula that is constantly true / false may legitimately not be a circuit
        if truth.min() == truth.max():
            res.status, res.note = "refused", f"constant formula: {o.exc_type}"
            return
        exc_violation(res, o, f"{tag}: build_circuit", "logic-build-raised")
        return
    sc = o.value
    scope = sorted(sc.scope)
    if any(v >= nv for v in scope):
        res.violate("logic-wrong-scope", f"{tag}: scope {scope}")
        return
    if not structs.is_smooth(sc) or not structs.is_decomposable(sc):
        res.violate("logic-not-smooth-decomposable", tag)
    # which variables does the formula really depend on?
    if set(scope) != set(fv):
        res.features.add("logic:scope-differs-from-syntactic-vars")
    res.features.add("logic:smoothed")  # sub-formulas skip variables with probability 0.2 each
    sr = rng.choice(["sum-product", "lse-sum", "complex-lse-sum"])
    for fold, opt in [C.FLAGS[rng.randrange(4)], C.FLAGS[3]]:
        comp = C.new_compiler(sr, fold, opt)
        cc_ = C.compile_in(res, comp, sc, tag)
        if cc_ is None:
            continue
        X = assignments if scope else None
        if X is not None and X.shape[1] < max(scope) + 1:
            X = np.concatenate([X, np.zeros((X.shape[0], max(scope) + 1 - X.shape[1]), dtype=np.int64)], axis=1)
        want = truth[:, None, None] if scope else truth[:1].reshape(1, 1)
        C.check_expected(res, cc_, X, want, np.ones_like(want), sr, f"{tag} {C.flag_name(fold, opt)} truth values", vclass="logic-truth-value")
        res.count("entries_compared", len(truth))
        if scope:
            oi = call(SF.integrate, sc)
            if oi.ok:
                ci = C.compile_in(res, comp, oi.value, f"{tag} integrate")
                if ci is not None:
                    # model count over the circuit's scope
                    free = [v for v in range(nv) if v not in scope]
                    count = truth.reshape((2,) * nv).sum() / (2 ** len(free))
                    C.check_expected(res, ci, None, np.array([[count]]), np.array([[count]]), sr, f"{tag} model count", vclass="logic-model-count")
            else:
                exc_violation(res, oi, f"{tag}: integrate(logic circuit)")


def run_case(case) -> Result:
    res = Result()
    rng = case_rng(ID, case["seed"], (case["kind"], case["k"], str(case.get("order"))))
    kind = case["kind"]
    if kind in ("cp", "tucker", "tensor_train"):
        run_tf(res, rng, kind, case)
    elif kind == "hmm":
        run_hmm(res, rng, case)
    elif kind == "ff":
        run_ff(res, rng, case)
    else:
        run_logic(res, rng, case)
    return res
