"""Reference model: a numpy (float64 / complex128) interpreter of *symbolic* cirkit objects.

It is written against the documented semantics of cirkit.symbolic.{layers,parameters} and shares
no code with cirkit.backend.  Everything is evaluated in linear space; callers map the result to
the semiring of the compiled circuit under test.

  eval_param(param, leaf)            -> ndarray of shape param.shape
  eval_circuit(sc, leaf, X)          -> ndarray (B, O, K) in linear space
  eval_circuit(sc, leaf, X, absmode) -> same with every weight / input value replaced by its
                                         modulus (bound on the size of the terms that may cancel)

`leaf` maps a symbolic TensorParameter (incl. ConstantParameter) to its current value.
"""
from __future__ import annotations

import numpy as np
from scipy import special as sps
from scipy import stats as spstats

from cirkit.symbolic import layers as L
from cirkit.symbolic import parameters as P


class RefUnsupported(Exception):
    """The reference model has no definition for this object (never silently guessed)."""


# --------------------------------------------------------------------------------------------
# parameters
# --------------------------------------------------------------------------------------------


def _outer(a: np.ndarray, b: np.ndarray, axis: int, fn) -> np.ndarray:
    a = np.moveaxis(a, axis, -1)
    b = np.moveaxis(b, axis, -1)
    r = fn(a[..., :, None], b[..., None, :])
    r = r.reshape(*r.shape[:-2], r.shape[-2] * r.shape[-1])
    return np.moveaxis(r, -1, axis)


def _pairs(a: np.ndarray, b: np.ndarray):
    """All (i, j) combinations of two vectors, flattened as i * len(b) + j."""
    return a[:, None], b[None, :]


def eval_node(n: P.ParameterNode, ins: list[np.ndarray], leaf) -> np.ndarray:
    if isinstance(n, P.TensorParameter):  # includes ConstantParameter
        return np.asarray(leaf(n))
    if isinstance(n, P.ReferenceParameter):
        return np.asarray(leaf(n.deref()))
    if isinstance(n, P.IndexParameter):
        return np.take(ins[0], n.indices, axis=n.axis)
    if isinstance(n, P.SumParameter):
        return ins[0] + ins[1]
    if isinstance(n, P.HadamardParameter):
        return ins[0] * ins[1]
    if isinstance(n, P.KroneckerParameter):
        return np.kron(ins[0], ins[1])
    if isinstance(n, P.OuterProductParameter):
        return _outer(ins[0], ins[1], n.axis, np.multiply)
    if isinstance(n, P.OuterSumParameter):
        return _outer(ins[0], ins[1], n.axis, np.add)
    if isinstance(n, P.ExpParameter):
        return np.exp(ins[0])
    if isinstance(n, P.LogParameter):
        with np.errstate(divide="ignore", invalid="ignore"):
            return np.log(ins[0])
    if isinstance(n, P.SquareParameter):
        return ins[0] * ins[0]
    if isinstance(n, P.SoftplusParameter):
        return np.logaddexp(0.0, ins[0])
    if isinstance(n, P.ScaledSigmoidParameter):
        return sps.expit(ins[0]) * (n.vmax - n.vmin) + n.vmin
    if isinstance(n, P.SigmoidParameter):
        return sps.expit(ins[0])
    if isinstance(n, P.ClampParameter):
        return np.clip(ins[0], n.vmin, n.vmax)
    if isinstance(n, P.ConjugateParameter):
        return np.conj(ins[0])
    if isinstance(n, P.ReduceSumParameter):
        return np.sum(ins[0], axis=n.axis)
    if isinstance(n, P.ReduceProductParameter):
        return np.prod(ins[0], axis=n.axis)
    if isinstance(n, P.ReduceLSEParameter):
        return sps.logsumexp(ins[0], axis=n.axis)
    if isinstance(n, P.SoftmaxParameter):
        return sps.softmax(ins[0], axis=n.axis)
    if isinstance(n, P.LogSoftmaxParameter):
        return sps.log_softmax(ins[0], axis=n.axis)
    if isinstance(n, P.MixingWeightParameter):
        v = ins[0]  # (K, H)
        k, h = v.shape
        w = np.zeros((k, h * k), dtype=v.dtype)
        for i in range(h):
            w[:, i * k : (i + 1) * k] = np.diag(v[:, i])
        return w
    if isinstance(n, P.GaussianProductMean):
        m1, s1, m2, s2 = ins
        (m1, m2), (s1, s2) = _pairs(m1, m2), _pairs(s1, s2)
        return ((m1 * s2**2 + m2 * s1**2) / (s1**2 + s2**2)).reshape(-1)
    if isinstance(n, P.GaussianProductStddev):
        s1, s2 = _pairs(ins[0], ins[1])
        return np.sqrt(1.0 / (1.0 / s1**2 + 1.0 / s2**2)).reshape(-1)
    if isinstance(n, P.GaussianProductLogPartition):
        m1, s1, m2, s2 = ins
        (m1, m2), (s1, s2) = _pairs(m1, m2), _pairs(s1, s2)
        v = s1**2 + s2**2
        return (-0.5 * (np.log(2.0 * np.pi) + np.log(v) + (m1 - m2) ** 2 / v)).reshape(-1)
    if isinstance(n, P.PolynomialProduct):
        a, b = ins
        out = np.zeros(
            (a.shape[0] * b.shape[0], a.shape[1] + b.shape[1] - 1),
            dtype=np.result_type(a.dtype, b.dtype),
        )
        for i in range(a.shape[0]):
            for j in range(b.shape[0]):
                out[i * b.shape[0] + j] = np.convolve(a[i], b[j])
        return out
    if isinstance(n, P.PolynomialDifferential):
        a = ins[0]
        if a.shape[1] <= n.order:
            return np.zeros((a.shape[0], 1), dtype=a.dtype)
        return np.stack(
            [np.polynomial.polynomial.polyder(a[i], m=n.order) for i in range(a.shape[0])]
        )
    raise RefUnsupported(f"parameter node {type(n).__name__}")


def eval_param(param: P.Parameter, leaf) -> np.ndarray:
    vals: dict = {}
    for n in param.topological_ordering():
        ins = [vals[ni] for ni in param.node_inputs(n)]
        v = np.asarray(eval_node(n, ins, leaf))
        if tuple(v.shape) != tuple(n.shape):
            raise AssertionError(
                f"reference shape {v.shape} != declared shape {n.shape} for {type(n).__name__}"
            )
        vals[n] = v
    return vals[param.output]


# --------------------------------------------------------------------------------------------
# layers
# --------------------------------------------------------------------------------------------


def _col(sl: L.InputLayer, X: np.ndarray) -> np.ndarray:
    (v,) = tuple(sl.scope)
    return X[:, v]


def eval_input_layer(sl: L.InputLayer, leaf, X: np.ndarray, nrows: int) -> np.ndarray:
    """Value of an input layer in linear space, shape (B, K)."""
    if isinstance(sl, L.EvidenceLayer):
        obs = eval_param(sl.observation, leaf)
        inner = sl.layer
        vars_sorted = sorted(inner.scope)
        ncols = (max(vars_sorted) + 1) if vars_sorted else 0
        xo = np.zeros((1, ncols), dtype=obs.dtype if obs.dtype.kind in "fc" else np.float64)
        for d, v in enumerate(vars_sorted):
            xo[0, v] = obs[d]
        y = eval_input_layer(inner, leaf, xo, 1)
        return np.broadcast_to(y, (nrows, y.shape[1])).copy()
    if isinstance(sl, L.ConstantValueLayer):
        v = eval_param(sl.value, leaf)
        if sl.log_space:
            v = np.exp(v)
        return np.broadcast_to(v[None, :], (nrows, v.shape[0])).copy()
    if isinstance(sl, L.EmbeddingLayer):
        w = eval_param(sl.weight, leaf)  # (K, N)
        x = np.real(_col(sl, X)).astype(np.int64)
        return w[:, x].T
    if isinstance(sl, L.CategoricalLayer):
        if sl.logits is None:
            w = eval_param(sl.probs, leaf)
        else:
            w = np.exp(eval_param(sl.logits, leaf))
        x = np.real(_col(sl, X)).astype(np.int64)
        return w[:, x].T
    if isinstance(sl, L.BinomialLayer):
        if sl.logits is None:
            p = eval_param(sl.probs, leaf)
        else:
            p = sps.expit(eval_param(sl.logits, leaf))
        x = np.real(_col(sl, X)).astype(np.int64)
        return spstats.binom.pmf(x[:, None], sl.total_count, p[None, :])
    if isinstance(sl, L.GaussianLayer):
        m = eval_param(sl.mean, leaf)
        s = eval_param(sl.stddev, leaf)
        x = np.real(_col(sl, X)).astype(np.float64)
        y = np.exp(-0.5 * ((x[:, None] - m[None, :]) / s[None, :]) ** 2) / (
            s[None, :] * np.sqrt(2.0 * np.pi)
        )
        if sl.log_partition is not None:
            y = y * np.exp(eval_param(sl.log_partition, leaf))[None, :]
        return y
    if isinstance(sl, L.PolynomialLayer):
        c = eval_param(sl.coeff, leaf)  # (K, d+1), c[:, i] multiplies x**i
        x = _col(sl, X)
        pw = x[:, None] ** np.arange(c.shape[1])[None, :]  # (B, d+1)
        return pw @ c.T
    raise RefUnsupported(f"input layer {type(sl).__name__}")


def eval_layers(sc, leaf, X: np.ndarray | None, *, absmode: bool = False, nrows: int | None = None):
    """Evaluate all layers; returns dict layer -> (B, K) in linear space."""
    if X is not None:
        X = np.asarray(X)
        nrows = X.shape[0]
    elif nrows is None:
        nrows = 1
    vals: dict = {}
    for sl in sc.topological_ordering():
        ins = [vals[si] for si in sc.layer_inputs(sl)]
        if isinstance(sl, L.InputLayer):
            y = eval_input_layer(sl, leaf, X, nrows)
            if absmode:
                y = np.abs(y)
        elif isinstance(sl, L.SumLayer):
            w = eval_param(sl.weight, leaf)
            if absmode:
                w = np.abs(w)
            x = np.concatenate(ins, axis=1)
            y = x @ w.T
        elif isinstance(sl, L.HadamardLayer):
            y = ins[0]
            for z in ins[1:]:
                y = y * z
        elif isinstance(sl, L.KroneckerLayer):
            y = ins[0]
            for z in ins[1:]:
                y = (y[:, :, None] * z[:, None, :]).reshape(y.shape[0], -1)
        else:
            raise RefUnsupported(f"layer {type(sl).__name__}")
        if y.shape != (nrows, sl.num_output_units):
            raise AssertionError(
                f"reference layer shape {y.shape} != {(nrows, sl.num_output_units)} "
                f"for {type(sl).__name__}"
            )
        vals[sl] = y
    return vals


def eval_circuit(sc, leaf, X: np.ndarray | None, *, absmode: bool = False, nrows=None) -> np.ndarray:
    vals = eval_layers(sc, leaf, X, absmode=absmode, nrows=nrows)
    return np.stack([vals[o] for o in sc.outputs], axis=1)  # (B, O, K)
