"""Who checks the oracle?  Run by setup.sh (and usable stand-alone: ./dbg.sh -m vf.selftest).

1. The numpy reference interpreter must reproduce the hand-computed ground truths shipped with
   the repository's own tests (tests/symbolic/test_utils.py: evidence values, marginals, partition
   functions of the two reference circuits) -- independently of the torch backend.
2. The brute-force marginal oracle must agree with those marginals / partition functions and, on
   Gaussians, with closed forms.
3. Every comparison monitor must fire on a planted fault (a compiled tensor perturbed behind the
   compiler map's back, two output units swapped) -- a monitor that cannot see a planted fault is
   reported before it is trusted.
"""
from __future__ import annotations

import sys

import numpy as np


def symbolic_leaf(p):
    from cirkit.symbolic.initializers import ConstantTensorInitializer

    init = p.initializer
    if isinstance(init, ConstantTensorInitializer):
        v = np.asarray(init.value, dtype=np.float64)
        return np.broadcast_to(v, p.shape).copy()
    raise ValueError(f"non-constant initializer {init}")


def main() -> int:
    from vf import worker

    worker.setup_runtime()
    from vf import brute, cc as C, gen, ref, tie
    from vf.common import Result
    from tests.symbolic import test_utils as T

    fails = []
    # 1 + 2: repository ground truths
    sc, gt, z = T.build_monotonic_structured_categorical_cpt_pc(return_ground_truth=True)
    domains = {v: ("disc", 2) for v in range(5)}
    for x, want in gt["evi"].items():
        got = ref.eval_circuit(sc, symbolic_leaf, np.array([x]))[0, 0, 0]
        if abs(got - want) > 1e-3 * abs(want):
            fails.append(f"reference evi {x}: {got} != {want}")
    for x, want in gt["mar"].items():
        zvars = [i for i, v in enumerate(x) if v is None]
        row = np.array([[0 if v is None else v for v in x]])
        got = brute.marginal(sc, symbolic_leaf, domains, row, zvars)[0][0, 0, 0]
        if abs(got - want) > 1e-3 * abs(want):
            fails.append(f"brute marginal {x}: {got} != {want}")
    got = brute.marginal(sc, symbolic_leaf, domains, np.zeros((1, 5), dtype=np.int64), list(range(5)))[0][0, 0, 0]
    if abs(got - z) > 1e-9 * z:
        fails.append(f"partition function {got} != {z}")
    sc, gt, z = T.build_monotonic_bivariate_gaussian_hadamard_dense_pc(return_ground_truth=True)
    gdom = {0: ("cont", 0), 1: ("cont", 0)}
    for x, want in gt["evi"].items():
        got = ref.eval_circuit(sc, symbolic_leaf, np.array([x]))[0, 0, 0]
        if abs(got - want) > 1e-6 * abs(want):  # the repository's constant was computed in float32
            fails.append(f"gaussian reference evi {x}: {got} != {want}")
    for x, want in gt["mar"].items():
        zvars = [i for i, v in enumerate(x) if v is None]
        row = np.array([[0.0 if v is None else v for v in x]])
        got = brute.marginal(sc, symbolic_leaf, gdom, row, zvars)[0][0, 0, 0]
        if abs(got - want) > 1e-7 * abs(want):
            fails.append(f"gaussian quadrature marginal {x}: {got} != {want}")
    got = brute.marginal(sc, symbolic_leaf, gdom, np.zeros((1, 2)), [0, 1], max_rows=4_000_000, max_cont_points=2000)
    if got is not None and abs(got[0][0, 0, 0] - z) > 1e-6 * z:
        fails.append(f"gaussian partition function by quadrature {got[0][0, 0, 0]} != {z}")

    # 3: planted faults must be seen
    import random

    rng = random.Random(1)
    seen = 0
    for k in range(6):
        cfg = gen.GenCfg(nvars=3, kinds=("cat", "embedding"), out_units=2)
        sc, meta = gen.gen_circuit(rng, cfg)
        comp = C.new_compiler("sum-product", True, True)
        cc_ = comp.compile(sc)
        pool = gen.all_assignments(meta["domains"])
        res = Result()
        assert C.check_value(res, sc, comp, cc_, pool, "sum-product", "selftest clean"), res.violations
        # fault 1: perturb one learnable tensor entry directly
        import torch

        p = next(p for p in cc_.parameters() if p.requires_grad)
        r0, a0 = C.reference(sc, comp, pool)
        with torch.no_grad():
            p.view(-1)[0] += 0.37
        r1, _ = C.reference(sc, comp, pool)  # the map reads the same storage: reference moves too
        res = Result()
        ok = C.check_value(res, sc, comp, cc_, pool, "sum-product", "selftest planted", r=r0, a=a0)
        if not np.allclose(r0, r1) and ok:
            fails.append("value monitor did not see a perturbed parameter")
        else:
            seen += 1
        # fault 2: swapped output units
        got = C.evaluate(cc_, pool)[:, :, ::-1]
        from vf.common import compare_semiring

        if not np.allclose(got, r1) and compare_semiring(got, r1, np.abs(r1), "sum-product")[0]:
            fails.append("comparison did not see swapped output units")
    if seen == 0:
        fails.append("no planted fault exercised")
    if fails:
        print("SELFTEST FAILED:\n  " + "\n  ".join(fails))
        return 1
    print("selftest ok: reference reproduces the repository ground truths; planted faults detected")
    return 0


if __name__ == "__main__":
    sys.exit(main())
