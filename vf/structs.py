"""Independent structural model (plain python sets; no cirkit.utils.scope, no Circuit predicates).

Recomputed from `layers`, `layer_inputs` and `InputLayer.scope` only.
"""
from __future__ import annotations

import itertools

from cirkit.symbolic import layers as L
from cirkit.symbolic import parameters as P


def layer_scopes(sc) -> dict:
    """layer -> frozenset of variable ids, bottom-up (own traversal: DFS with memo)."""
    scopes: dict = {}

    def rec(sl):
        if sl in scopes:
            return scopes[sl]
        if isinstance(sl, L.InputLayer):
            s = frozenset(int(v) for v in sl.scope)
        else:
            s = frozenset()
            for si in sc.layer_inputs(sl):
                s = s | rec(si)
        scopes[sl] = s
        return s

    for sl in sc.layers:
        rec(sl)
    return scopes


def circuit_scope(sc) -> frozenset:
    scopes = layer_scopes(sc)
    s = frozenset()
    for o in sc.outputs:
        s = s | scopes[o]
    return s


def is_smooth(sc) -> bool:
    scopes = layer_scopes(sc)
    for sl in sc.layers:
        if isinstance(sl, L.SumLayer):
            for si in sc.layer_inputs(sl):
                if scopes[si] != scopes[sl]:
                    return False
    return True


def is_decomposable(sc) -> bool:
    scopes = layer_scopes(sc)
    for sl in sc.layers:
        if isinstance(sl, L.ProductLayer):
            ins = sc.layer_inputs(sl)
            for a, b in itertools.combinations(ins, 2):
                if scopes[a] & scopes[b]:
                    return False
    return True


def factorizations(sc) -> dict:
    """scope -> set of factorizations; a factorization is a frozenset of non-empty sub-scopes
    (only recorded when it really splits the scope in >= 2 non-empty parts)."""
    scopes = layer_scopes(sc)
    out: dict = {}
    for sl in sc.layers:
        if isinstance(sl, L.ProductLayer):
            parts = [scopes[si] for si in sc.layer_inputs(sl) if scopes[si]]
            if len(parts) > 1:
                # as a multiset the parts are pairwise disjoint when decomposable; use a sorted
                # tuple of sorted tuples so that duplicates (non-decomposable) stay visible
                fs = tuple(sorted(tuple(sorted(p)) for p in parts))
                out.setdefault(scopes[sl], set()).add(fs)
    return out


def same_split_everywhere(*circuits) -> bool:
    """The property's wording: all products over the same scope (across the given circuits)
    split it into the same set of sub-scopes."""
    merged: dict = {}
    for sc in circuits:
        for s, fs in factorizations(sc).items():
            merged.setdefault(s, set()).update(fs)
    return all(len(fs) == 1 for fs in merged.values())


def is_structured_decomposable_model(sc) -> bool:
    return is_smooth(sc) and is_decomposable(sc) and same_split_everywhere(sc)


def compatible_necessary(sc1, sc2) -> bool:
    """Necessary condition for compatibility as the property words it (used for soundness:
    `are_compatible` must not be True when this is False)."""
    return (
        is_smooth(sc1)
        and is_decomposable(sc1)
        and is_smooth(sc2)
        and is_decomposable(sc2)
        and same_split_everywhere(sc1, sc2)
    )


# ------------------------------------------------------------------------------------------
# features of symbolic circuits (for coverage floors and finding predicates)
# ------------------------------------------------------------------------------------------
def circuit_features(sc) -> set[str]:
    from vf.tie import iter_layer_params

    f: set[str] = set()
    scopes = layer_scopes(sc)
    ids = sorted(circuit_scope(sc))
    if ids and ids != list(range(len(ids))):
        f.add("ids:sparse")
    if ids and max(ids) >= 8:
        f.add("ids:>=8")
    if list(frozenset(ids)) != ids:
        f.add("ids:iter-unsorted")  # the hash-table order of the underlying set is not the id order
    if len(sc.outputs) > 1:
        f.add("multi-output")
    outs = set(sc.outputs)
    for sl in sc.layers:
        consumers = sc.layer_outputs(sl)
        if sl in outs and len(consumers) > 0:
            f.add("interior-output")
        if len(consumers) > 1:
            f.add("shared-layer")
            if isinstance(sl, (L.HadamardLayer, L.KroneckerLayer)) and sum(1 for c_ in consumers if isinstance(c_, L.SumLayer) and c_.arity == 1) >= 1:
                f.add("product-with-several-consumers")
        if isinstance(sl, L.SumLayer):
            f.add("sum:arity>1" if sl.arity > 1 else "sum:arity1")
            if any(isinstance(n, P.MixingWeightParameter) for n in sl.weight.nodes):
                f.add("sum:mixing" + (">1" if sl.arity > 1 else "1"))
        elif isinstance(sl, L.HadamardLayer):
            f.add("prod:hadamard")
            if sl.arity >= 3:
                f.add("prod:arity>=3")
        elif isinstance(sl, L.KroneckerLayer):
            f.add("prod:kronecker")
            f.add(f"prod:kronecker-arity{min(sl.arity, 3)}")
            if sl.arity >= 3:
                f.add("prod:arity>=3")
        elif isinstance(sl, L.EvidenceLayer):
            f.add("in:evidence")
            f.add("in:evidence:" + type(sl.layer).__name__)
        elif isinstance(sl, L.ConstantValueLayer):
            f.add("in:constant" + ("-log" if sl.log_space else "-lin"))
        elif isinstance(sl, L.CategoricalLayer):
            f.add("in:categorical-" + ("probs" if sl.logits is None else "logits"))
        elif isinstance(sl, L.BinomialLayer):
            f.add("in:binomial-" + ("probs" if sl.logits is None else "logits"))
        elif isinstance(sl, L.GaussianLayer):
            f.add("in:gaussian" + ("-lp" if sl.log_partition is not None else ""))
        elif isinstance(sl, L.EmbeddingLayer):
            f.add("in:embedding")
        elif isinstance(sl, L.PolynomialLayer):
            f.add("in:polynomial")
        for _, _, p in iter_layer_params(sl):
            for n in p.nodes:
                f.add("p:" + type(n).__name__)
    return f


def compiled_features(cc) -> set[str]:
    """Features of a compiled TorchCircuit: optimised layer kinds, fold counts, address-book
    entry kinds, pointer folding."""
    from cirkit.backend.torch.parameters.nodes import TorchPointerParameter, TorchTensorParameter
    import torch

    f: set[str] = set()
    for l in cc.layers:
        name = type(l).__name__
        f.add("cc:" + name)
        if l.num_folds > 1:
            f.add("cc:fold>1")
            f.add("cc:fold>1:" + name)
        for p in l.params.values():
            if p.is_folded and p.num_folds > 1:
                pass
            for n in p.nodes:
                nn_ = type(n).__name__
                f.add("ccp:" + nn_)
                if n.num_folds > 1:
                    f.add("ccp:fold>1:" + nn_)
                if isinstance(n, TorchPointerParameter) and n.fold_idx is not None:
                    f.add("ccp:pointer-fold-idx")
        for sub in l.sub_modules.values():
            f.add("cc:sub:" + type(sub).__name__)
            if sub.num_folds > 1:
                f.add("cc:sub-fold>1")
    for entry in cc.address_book:
        for fi in entry.in_fold_idx:
            if isinstance(fi, torch.Tensor):
                f.add("ab:index-tensor")
            elif fi == (None,):
                f.add("ab:unsqueeze0")
            elif len(fi) == 2:
                f.add("ab:unsqueeze1")
    if cc.is_folded:
        f.add("cc:folded")
    return f


def fold_counts(cc) -> list[int]:
    return sorted({l.num_folds for l in cc.layers})
