"""Parameter valuations: read / write the values of *symbolic* tensor parameters through the
compiler's own symbolic->compiled map (compiler.state.retrieve_compiled_parameter)."""
from __future__ import annotations

import numpy as np
import torch

from cirkit.symbolic import layers as L
from cirkit.symbolic import parameters as P


def iter_layer_params(sl):
    """(layer, name, Parameter) for a layer, including the layer wrapped by an evidence layer."""
    for n, p in sl.params.items():
        yield sl, n, p
    if isinstance(sl, L.EvidenceLayer):
        yield from iter_layer_params(sl.layer)


def circuit_params(sc):
    for sl in sc.layers:
        yield from iter_layer_params(sl)


def circuit_leaves(sc):
    """Returns (owned, referenced): symbolic TensorParameters appearing as nodes of the circuit's
    parameter graphs, and those reached through ReferenceParameter nodes (owned by operands)."""
    owned, referenced = {}, {}
    for _, _, p in circuit_params(sc):
        for n in p.nodes:
            if isinstance(n, P.TensorParameter):
                owned[n] = None
            elif isinstance(n, P.ReferenceParameter):
                referenced[n.deref()] = None
    return list(owned), list(referenced)


def pipeline_circuits(sc):
    """All symbolic circuits in the operator pipeline rooted at sc, operands first."""
    seen, order = set(), []

    def rec(c):
        if id(c) in seen:
            return
        seen.add(id(c))
        if c.operation is not None:
            for o in c.operation.operands:
                rec(o)
        order.append(c)

    rec(sc)
    return order


def leaf_reader(compiler):
    state = compiler.state

    def leaf(p):
        t, i = state.retrieve_compiled_parameter(p)
        return t._ptensor.detach()[i].numpy()  # pylint: disable=protected-access

    return leaf


def write_leaf(compiler, p, value) -> None:
    t, i = compiler.state.retrieve_compiled_parameter(p)
    pt = t._ptensor  # pylint: disable=protected-access
    with torch.no_grad():
        pt.data[i].copy_(torch.as_tensor(np.asarray(value)).to(pt.dtype))


def leaf_domains(sc) -> dict:
    """Domain class of every owned leaf: 'any' | 'pos' | 'unit', inferred from how the leaf is
    consumed (raw probs / stddev / input of a Log must be positive, raw binomial probs in (0,1))."""
    dom: dict = {}
    for sl, name, p in circuit_params(sc):
        for n in p.nodes:
            if not isinstance(n, P.TensorParameter):
                continue
            d = "any"
            consumers = p.node_outputs(n)
            if n is p.output or not consumers:
                if isinstance(sl, L.CategoricalLayer) and name == "probs":
                    d = "simplex"  # probabilities: the layer's contract is a normalised distribution
                elif isinstance(sl, L.BinomialLayer) and name == "probs":
                    d = "unit"
                elif isinstance(sl, L.GaussianLayer) and name == "stddev":
                    d = "pos"
            for c in consumers:
                if isinstance(c, P.LogParameter):
                    d = "pos"
                if isinstance(c, (P.GaussianProductStddev,)):
                    d = "pos"
                if isinstance(c, (P.GaussianProductMean, P.GaussianProductLogPartition)):
                    ins = p.node_inputs(c)
                    if ins.index(n) in (1, 3):
                        d = "pos"
            # keep the most restrictive
            prev = dom.get(n)
            rank = {"any": 0, "pos": 1, "unit": 2, "simplex": 3}
            if prev is None or rank[d] > rank[prev]:
                dom[n] = d
    return dom


def draw(rng: np.random.Generator, shape, domain: str, cls: str, dtype) -> np.ndarray:
    """Draw a valuation for one leaf. cls: normal | wide | small | sparse | posonly."""
    if dtype == "complex":
        v = rng.normal(size=shape) + 1j * rng.normal(size=shape)
        if cls == "wide":
            v = v * 3.0
        return v
    if domain == "unit":
        return rng.uniform(0.03, 0.97, size=shape)
    if domain == "simplex":
        v = rng.uniform(0.05, 1.0, size=shape)
        if cls == "zeros" and shape[-1] > 1:
            v[..., rng.integers(shape[-1])] = 0.0  # one category has probability exactly 0 in every unit
        return v / v.sum(axis=-1, keepdims=True)
    if domain == "pos":
        lo, hi = (0.2, 2.5) if cls != "wide" else (0.05, 6.0)
        return rng.uniform(lo, hi, size=shape)
    if cls == "posonly":
        return rng.uniform(0.05, 2.0, size=shape)
    if cls == "zeros":  # non-negative with exact zeros
        v = rng.uniform(0.05, 2.0, size=shape)
        return np.where(rng.random(size=shape) < 0.3, 0.0, v)
    if cls == "wide":
        return rng.normal(size=shape) * 4.0
    if cls == "small":
        return rng.normal(size=shape) * 0.05
    v = rng.normal(size=shape)
    if cls == "sparse":
        mask = rng.random(size=shape) < 0.3
        v = np.where(mask, 0.0, v)
    return v


def revalue(compiler, sc, rng: np.random.Generator, cls: str = "normal", *, include_pipeline=True):
    """Overwrite every *learnable* leaf of the circuit (and of its operands) with fresh values of
    class `cls`, respecting each leaf's domain.  Constants are left as compiled."""
    from cirkit.symbolic.dtypes import DataType

    circuits = pipeline_circuits(sc) if include_pipeline else [sc]
    written = 0
    for c in circuits:
        dom = leaf_domains(c)
        for n, d in dom.items():
            if not n.learnable or isinstance(n, P.ConstantParameter):
                continue
            if not compiler.state.has_compiled_parameter(n):
                continue
            dt = "complex" if n.dtype == DataType.COMPLEX else "real"
            write_leaf(compiler, n, draw(rng, n.shape, d, cls, dt))
            written += 1
    return written


def copy_valuation(src_compiler, dst_compiler, sc) -> int:
    """Tie: copy every leaf value (learnable or not) of sc's pipeline from one compiler to another,
    symbol by symbol."""
    n_copied = 0
    rd = leaf_reader(src_compiler)
    for c in pipeline_circuits(sc):
        owned, _ = circuit_leaves(c)
        for n in owned:
            if src_compiler.state.has_compiled_parameter(n) and dst_compiler.state.has_compiled_parameter(n):
                write_leaf(dst_compiler, n, rd(n))
                n_copied += 1
    return n_copied


def repair_domains(compiler, sc, rng: np.random.Generator) -> int:
    """After a gradient step a constrained raw leaf (probabilities, stddev, Log input) may have left
    its domain; such leaves are overwritten in place with a fresh in-domain draw (this is itself a
    legitimate in-place update of the history).  Returns the number of repaired leaves."""
    n_rep = 0
    rd = leaf_reader(compiler)
    for c in pipeline_circuits(sc):
        for n, d in leaf_domains(c).items():
            if d == "any" or not compiler.state.has_compiled_parameter(n) or isinstance(n, P.ConstantParameter):
                continue
            v = rd(n)
            bad = (not np.all(np.isfinite(v))) or (d in ("pos", "simplex") and np.any(v <= 1e-3)) or (d == "unit" and (np.any(v <= 0.01) or np.any(v >= 0.99)))
            if d == "simplex" and not bad:
                bad = not np.allclose(v.sum(axis=-1), 1.0, atol=1e-9)
            if bad:
                write_leaf(compiler, n, draw(rng, n.shape, d, "normal", "real"))
                n_rep += 1
    return n_rep
