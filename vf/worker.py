"""Worker process: runs a shard of cases of one property and streams one JSON record per case."""
from __future__ import annotations

import faulthandler
import importlib
import json
import os
import signal
import sys
import time
import traceback
import warnings


class CaseTimeout(Exception):
    pass


def _alarm(signum, frame):
    raise CaseTimeout()


def setup_runtime():
    # memory guard: a defect that blows up memory must surface as an exception in this worker, not
    # take the machine down (virtual address space limit; torch itself maps a few GB)
    import resource

    lim = int(os.environ.get("VERIF_WORKER_MEM_GB", "12")) << 30
    try:
        resource.setrlimit(resource.RLIMIT_AS, (lim, lim))
    except (ValueError, OSError):
        pass
    import torch

    torch.set_num_threads(1)
    torch.set_default_dtype(torch.float64)
    warnings.filterwarnings("ignore")
    import cirkit

    root = os.path.realpath(os.environ.get("VERIF_REPO", "/repo"))
    here = os.path.realpath(cirkit.__file__)
    if not here.startswith(root + os.sep):
        raise SystemExit(f"cirkit imported from {here}, expected under {root}")
    from vf import monitors

    monitors.install()
    # operator contracts (ambient, C09): wraps cirkit.symbolic.functional in place
    from vf import contracts

    contracts.install()


def run_one(mod, case, case_timeout: int) -> dict:
    from vf import monitors
    from vf.common import repo_root

    t0 = time.time()
    before = dict(monitors.COUNTS)
    signal.signal(signal.SIGALRM, _alarm)
    signal.alarm(case_timeout)
    try:
        res = mod.run_case(case).to_json()
    except CaseTimeout:
        res = {"status": "timeout", "features": [], "sig": "", "nontrivial": False, "violations": [], "obs": {}, "note": "case watchdog fired"}
    except Exception as e:  # pylint: disable=broad-except
        # an exception that escaped the property code: library fault if the deepest frame is in
        # the repository / torch, harness fault otherwise
        tb = traceback.extract_tb(e.__traceback__)
        root = repo_root()
        deepest = os.path.realpath(tb[-1].filename) if tb else ""
        from vf.monitors import MonitorViolation

        in_lib = any(os.path.realpath(fr.filename).startswith(root + os.sep) for fr in tb)
        txt = "".join(traceback.format_exception(type(e), e, e.__traceback__)[-8:])
        if isinstance(e, MonitorViolation):
            res = {"status": "violation", "features": [], "sig": "", "nontrivial": True, "obs": {},
                   "violations": [{"vclass": e.vclass, "detail": e.detail}], "note": txt[-1500:]}
        elif in_lib and ("/verif/vf/" not in deepest):
            where = ""
            for fr in tb:
                fn = os.path.realpath(fr.filename)
                if fn.startswith(root + os.sep):
                    where = f"{os.path.relpath(fn, root)}:{fr.name}"
            res = {"status": "violation", "features": [], "sig": "", "nontrivial": True, "obs": {},
                   "violations": [{"vclass": f"unexpected-exception:{type(e).__name__}", "detail": f"{type(e).__name__}: {str(e)[:300]} @ {where}", "where": where}],
                   "note": txt[-1500:]}
        else:
            res = {"status": "error", "features": [], "sig": "", "nontrivial": False, "violations": [], "obs": {}, "note": txt[-3000:]}
    finally:
        signal.alarm(0)
    after = monitors.COUNTS
    res["mon"] = {k: after[k] - before.get(k, 0) for k in after if after[k] - before.get(k, 0)}
    res["wall"] = round(time.time() - t0, 3)
    res["case"] = case
    return res


def main():
    prop, shard_in, shard_out, case_timeout = sys.argv[1], sys.argv[2], sys.argv[3], int(sys.argv[4])
    faulthandler.enable()
    setup_runtime()
    mod = importlib.import_module(f"vf.props.{prop.lower()}")
    cases = json.load(open(shard_in))
    with open(shard_out, "w") as out:
        for case in cases:
            rec = run_one(mod, case, case_timeout)
            out.write(json.dumps(rec, default=str) + "\n")
            out.flush()
        out.write(json.dumps({"shard_done": True}) + "\n")


if __name__ == "__main__":
    main()
